// tsconv.hpp -- small independent conversion reference for the file checks (C06, C08).
//
// Everything is derived from the defining port relations tabulated in vnaconv(3) and from the
// format descriptions in vnadata(3); nothing is shared with libvna.  Arithmetic is long double.
//
//   state of an n-port:  u = (v_1..v_n, i_1..i_n)
//   a_k = 1/2 K_k (v_k + Z_k i_k),  b_k = 1/2 K_k (v_k - conj(Z_k) i_k),  K_k = 1/sqrt(|re Z_k|)
//   every parameter type X is "out_X(u) = N_X in_X(u)" with
//     S: b = S a          T: (b1,a1) = T (a2,b2)      U: (a2,b2) = U (b1,a1)
//     Z: v = Z i          Y: i = Y v
//     H: (v1,i2) = H (i1,v2)   G: (i1,v2) = G (v1,i2)
//     A: (v1,i1) = A (v2,-i2)  B: (v2,-i2) = B (v1,i1)
//   conversion X -> Y: take the n states with in_X = e_j (out_X = N_X e_j), express them as u,
//   then N_Y = out_Y(U) * in_Y(U)^-1.
#pragma once
#include <complex>
#include <vector>
#include <cmath>
#include <cstdint>
#include <algorithm>

namespace tsconv {

typedef long double ld;
typedef std::complex<ld> cl;

// numbering identical to vnadata_parameter_type_t (VPT_UNDEF = 0 ... VPT_ZIN = 10)
enum { P_UNDEF = 0, P_S, P_T, P_U, P_Z, P_Y, P_H, P_G, P_A, P_B, P_ZIN };
// value encodings of a file column group
enum { F_DB = 0, F_MA, F_RI, F_PRC, F_PRL, F_SRC, F_SRL, F_IL, F_RL, F_VSWR };

static inline bool is_2x2_only(int p) { return p == P_T || p == P_U || p == P_H || p == P_G || p == P_A || p == P_B; }
static inline bool is_matrix(int p) { return p >= P_S && p <= P_B; }
static inline bool is_power(int p) { return p == P_S || p == P_T || p == P_U; }
static inline const char *pname(int p) {
    static const char *n[] = {"?", "S", "T", "U", "Z", "Y", "H", "G", "A", "B", "Zin"};
    return (p >= 0 && p <= 10) ? n[p] : "?";
}
static const ld PI_L = 3.14159265358979323846264338327950288L;

// ---- linear algebra in binary128 ------------------------------------------------------------
// The reference has to be (much) more accurate than the double arithmetic it judges, also where its
// own formulation cancels (e.g. S12 of a badly scaled H matrix), so the elimination runs in
// __float128 (eps ~ 1e-34); inputs and results are long double.
typedef __float128 qf;
struct qc { qf re, im; };
static inline qc Q(cl z) { return qc{(qf)z.real(), (qf)z.imag()}; }
static inline qc Q(qf r) { return qc{r, 0}; }
static inline cl L(qc z) { return cl((ld)z.re, (ld)z.im); }
static inline qc operator+(qc a, qc b) { return qc{a.re + b.re, a.im + b.im}; }
static inline qc operator-(qc a, qc b) { return qc{a.re - b.re, a.im - b.im}; }
static inline qc operator-(qc a) { return qc{-a.re, -a.im}; }
static inline qc operator*(qc a, qc b) { return qc{a.re * b.re - a.im * b.im, a.re * b.im + a.im * b.re}; }
static inline qc operator*(qc a, qf k) { return qc{a.re * k, a.im * k}; }
static inline qf qabs(qf x) { return x < 0 ? -x : x; }
static inline qf mag1(qc a) { return qabs(a.re) + qabs(a.im); }
static inline qc operator/(qc a, qc b) {
    // scale to avoid over/underflow of |b|^2
    qf s = mag1(b); qc bs{b.re / s, b.im / s}; qf d = bs.re * bs.re + bs.im * bs.im;
    qc as{a.re / s, a.im / s};
    return qc{(as.re * bs.re + as.im * bs.im) / d, (as.im * bs.re - as.re * bs.im) / d};
}
static inline qc qconj(qc a) { return qc{a.re, -a.im}; }
static inline bool qfinite(qc a) { return std::isfinite((double)(ld)a.re) && std::isfinite((double)(ld)a.im); }
static inline qf qsqrt(qf a) { qf x = (qf)sqrtl((ld)a); if (x > 0) { x = x - (x * x - a) / (2 * x); x = x - (x * x - a) / (2 * x); } return x; }

// Solve A X = B (A m x m, B m x k, both row-major) by Gaussian elimination with row equilibration
// and partial pivoting.  Returns false if a pivot is zero or not finite.
static inline bool solve(int m, std::vector<qc> A, int k, std::vector<qc> &B) {
    for (int r = 0; r < m; r++) {
        qf mx = 0; for (int j = 0; j < m; j++) { qf a = mag1(A[r * m + j]); if (a > mx) mx = a; }
        if (!(mx > 0) || !std::isfinite((double)(ld)mx)) return false;
        for (int j = 0; j < m; j++) A[r * m + j] = A[r * m + j] * (1 / mx);
        for (int j = 0; j < k; j++) B[r * k + j] = B[r * k + j] * (1 / mx);
    }
    for (int c = 0; c < m; c++) {
        int p = c; qf best = mag1(A[c * m + c]);
        for (int r = c + 1; r < m; r++) { qf a = mag1(A[r * m + c]); if (a > best) { best = a; p = r; } }
        if (!(best > 0) || !std::isfinite((double)(ld)best)) return false;
        if (p != c) {
            for (int j = 0; j < m; j++) std::swap(A[p * m + j], A[c * m + j]);
            for (int j = 0; j < k; j++) std::swap(B[p * k + j], B[c * k + j]);
        }
        qc piv = A[c * m + c];
        for (int r = c + 1; r < m; r++) {
            if (mag1(A[r * m + c]) == 0) continue;
            qc f = A[r * m + c] / piv;
            for (int j = c; j < m; j++) A[r * m + j] = A[r * m + j] - f * A[c * m + j];
            for (int j = 0; j < k; j++) B[r * k + j] = B[r * k + j] - f * B[c * k + j];
        }
    }
    for (int c = m - 1; c >= 0; c--) {
        for (int j = 0; j < k; j++) {
            qc s = B[c * k + j];
            for (int q = c + 1; q < m; q++) s = s - A[c * m + q] * B[q * k + j];
            B[c * k + j] = s / A[c * m + c];
        }
    }
    return true;
}

// Rows of the "in" and "out" selectors of type p over u = (v, i); each n x 2n.
static inline void relation(int p, int n, const cl *z0, std::vector<qc> &Pin, std::vector<qc> &Pout) {
    Pin.assign((size_t)n * 2 * n, qc{0, 0}); Pout.assign((size_t)n * 2 * n, qc{0, 0});
    auto V = [&](std::vector<qc> &M, int row, int k, qc c) { M[(size_t)row * 2 * n + k] = M[(size_t)row * 2 * n + k] + c; };
    auto I = [&](std::vector<qc> &M, int row, int k, qc c) { M[(size_t)row * 2 * n + n + k] = M[(size_t)row * 2 * n + n + k] + c; };
    auto K = [&](int k) { return 1 / qsqrt(qabs((qf)z0[k].real())); };
    auto Arow = [&](std::vector<qc> &M, int row, int k) { qf h = K(k) / 2; V(M, row, k, Q(h)); I(M, row, k, Q(z0[k]) * h); };
    auto Brow = [&](std::vector<qc> &M, int row, int k) { qf h = K(k) / 2; V(M, row, k, Q(h)); I(M, row, k, -qconj(Q(z0[k])) * h); };
    const qc one{1, 0}, mone{-1, 0};
    switch (p) {
    case P_S: for (int k = 0; k < n; k++) { Arow(Pin, k, k); Brow(Pout, k, k); } break;
    case P_Z: for (int k = 0; k < n; k++) { I(Pin, k, k, one); V(Pout, k, k, one); } break;
    case P_Y: for (int k = 0; k < n; k++) { V(Pin, k, k, one); I(Pout, k, k, one); } break;
    case P_T: Brow(Pout, 0, 0); Arow(Pout, 1, 0); Arow(Pin, 0, 1); Brow(Pin, 1, 1); break;
    case P_U: Arow(Pout, 0, 1); Brow(Pout, 1, 1); Brow(Pin, 0, 0); Arow(Pin, 1, 0); break;
    case P_H: V(Pout, 0, 0, one); I(Pout, 1, 1, one); I(Pin, 0, 0, one); V(Pin, 1, 1, one); break;
    case P_G: I(Pout, 0, 0, one); V(Pout, 1, 1, one); V(Pin, 0, 0, one); I(Pin, 1, 1, one); break;
    case P_A: V(Pout, 0, 0, one); I(Pout, 1, 0, one); V(Pin, 0, 1, one); I(Pin, 1, 1, mone); break;
    case P_B: V(Pout, 0, 1, one); I(Pout, 1, 1, mone); V(Pin, 0, 0, one); I(Pin, 1, 0, one); break;
    default: break;
    }
}

// Convert the n x n matrix NX of type pX (reference impedances z0) to type pY.  false: undefined.
static inline bool convert(int pX, int n, const std::vector<cl> &NX, const cl *z0, int pY, std::vector<cl> &NY) {
    if (!is_matrix(pX) || !is_matrix(pY)) return false;
    if ((is_2x2_only(pX) || is_2x2_only(pY)) && n != 2) return false;
    if ((int)NX.size() != n * n) return false;
    if (pX == pY) { NY = NX; return true; }
    std::vector<qc> Pin, Pout;
    relation(pX, n, z0, Pin, Pout);
    int m = 2 * n;
    std::vector<qc> Qm((size_t)m * m), R((size_t)m * n, qc{0, 0});
    for (int r = 0; r < n; r++) for (int c = 0; c < m; c++) { Qm[(size_t)r * m + c] = Pin[(size_t)r * m + c]; Qm[(size_t)(n + r) * m + c] = Pout[(size_t)r * m + c]; }
    for (int r = 0; r < n; r++) { R[(size_t)r * n + r] = qc{1, 0}; for (int c = 0; c < n; c++) R[(size_t)(n + r) * n + c] = Q(NX[(size_t)r * n + c]); }
    if (!solve(m, Qm, n, R)) return false;          // R = U (2n x n): the n basis states
    relation(pY, n, z0, Pin, Pout);
    std::vector<qc> Ain((size_t)n * n), Aout((size_t)n * n);
    for (int r = 0; r < n; r++) for (int c = 0; c < n; c++) {
        qc si{0, 0}, so{0, 0};
        for (int q = 0; q < m; q++) { si = si + Pin[(size_t)r * m + q] * R[(size_t)q * n + c]; so = so + Pout[(size_t)r * m + q] * R[(size_t)q * n + c]; }
        Ain[(size_t)r * n + c] = si; Aout[(size_t)r * n + c] = so;
    }
    // NY Ain = Aout  <=>  Ain^T NY^T = Aout^T
    std::vector<qc> At((size_t)n * n), Bt((size_t)n * n);
    for (int r = 0; r < n; r++) for (int c = 0; c < n; c++) { At[(size_t)r * n + c] = Ain[(size_t)c * n + r]; Bt[(size_t)r * n + c] = Aout[(size_t)c * n + r]; }
    if (!solve(n, At, n, Bt)) return false;
    NY.assign((size_t)n * n, cl(0));
    for (int r = 0; r < n; r++) for (int c = 0; c < n; c++) { if (!qfinite(Bt[(size_t)c * n + r])) return false; NY[(size_t)r * n + c] = L(Bt[(size_t)c * n + r]); }
    return true;
}

// Input impedance looking into port k with every other port j terminated in its z0
// (v_j = -Z_j i_j, i.e. a_j = 0), straight from the port relations: solve for the state with
//   (Pout - N Pin) u = 0,   v_j + Z_j i_j = 0 (j != k),   i_k = 1      =>   zin_k = v_k.
static inline bool to_zin(int pX, int n, const std::vector<cl> &NX, const cl *z0, std::vector<cl> &zin) {
    if (!is_matrix(pX) || (is_2x2_only(pX) && n != 2)) return false;
    if ((int)NX.size() != n * n) return false;
    std::vector<qc> Pin, Pout;
    relation(pX, n, z0, Pin, Pout);
    int m = 2 * n;
    zin.assign(n, cl(0));
    for (int k = 0; k < n; k++) {
        std::vector<qc> A((size_t)m * m, qc{0, 0}), B((size_t)m, qc{0, 0});
        for (int r = 0; r < n; r++) for (int c = 0; c < m; c++) {
            qc s = Pout[(size_t)r * m + c];
            for (int q = 0; q < n; q++) s = s - Q(NX[(size_t)r * n + q]) * Pin[(size_t)q * m + c];
            A[(size_t)r * m + c] = s;
        }
        int row = n;
        for (int j = 0; j < n; j++) { if (j == k) continue; A[(size_t)row * m + j] = qc{1, 0}; A[(size_t)row * m + n + j] = Q(z0[j]); row++; }
        A[(size_t)row * m + n + k] = qc{1, 0}; B[row] = qc{1, 0};
        if (!solve(m, A, 1, B)) return false;
        if (!qfinite(B[k])) return false;
        zin[k] = L(B[k]);
    }
    return true;
}

// Touchstone 1 normalisation to the reference resistance R of an (un-normalised) matrix.
static inline cl ts1_normalise(int p, int row, int col, cl v, ld R) {
    switch (p) {
    case P_Z: return v / R;
    case P_Y: return v * R;
    case P_H: return (row == 0 && col == 0) ? v / R : (row == 1 && col == 1) ? v * R : v;
    case P_G: return (row == 0 && col == 0) ? v * R : (row == 1 && col == 1) ? v / R : v;
    default: return v;
    }
}
static inline cl ts1_denormalise(int p, int row, int col, cl v, ld R) { return ts1_normalise(p, row, col, v, 1 / R); }

// ---- encodings of one complex value (vnadata(3) format specifiers) ------------------------------
static inline ld deg(cl v) { return std::arg(v) * 180 / PI_L; }
static inline ld db20(ld mag) { return 20 * std::log10(mag); }
// two fields of a complex-valued group; f is the frequency (needed by the R-L / R-C views of Zin)
static inline void encode(int fmt, cl v, ld f, ld out[2]) {
    ld w = 2 * PI_L * f, zr = v.real(), zi = v.imag(), m2 = zr * zr + zi * zi;
    switch (fmt) {
    case F_RI: out[0] = zr; out[1] = zi; break;
    case F_MA: out[0] = std::abs(v); out[1] = deg(v); break;
    case F_DB: out[0] = db20(std::abs(v)); out[1] = deg(v); break;
    // parallel R with C or L:  1/z = 1/R + j w C = 1/R - j/(w L)
    case F_PRC: out[0] = m2 / zr; out[1] = -zi / (w * m2); break;
    case F_PRL: out[0] = m2 / zr; out[1] = m2 / (w * zi); break;
    // series R with C or L:  z = R - j/(w C) = R + j w L
    case F_SRC: out[0] = zr; out[1] = -1 / (w * zi); break;
    case F_SRL: out[0] = zr; out[1] = zi / w; break;
    default: out[0] = out[1] = NAN; break;
    }
}
static inline bool decode(int fmt, ld a, ld b, ld f, cl &v) {
    ld w = 2 * PI_L * f;
    const cl J(0, 1);
    switch (fmt) {
    case F_RI: v = cl(a, b); return true;
    case F_MA: v = std::polar<ld>(1, b * PI_L / 180) * a; return true;
    case F_DB: v = std::polar<ld>(1, b * PI_L / 180) * std::pow((ld)10, a / 20); return true;
    case F_PRC: v = cl(1) / (cl(1 / a) + J * (w * b)); return true;
    case F_PRL: v = cl(1) / (cl(1 / a) - J / (w * b)); return true;
    case F_SRC: v = cl(a) - J / (w * b); return true;
    case F_SRL: v = cl(a) + J * (w * b); return true;
    default: return false;
    }
}
// scalar views of S
static inline ld insertion_loss(cl s_rc) { return -db20(std::abs(s_rc)); }
static inline ld return_loss(cl s_kk) { return -db20(std::abs(s_kk)); }
static inline ld vswr(cl s_kk) { ld a = std::abs(s_kk); return (1 + a) / (1 - a); }   // defined for |s_kk| < 1

static inline bool fmt_is_complex(int fmt) { return fmt <= F_SRL; }      // two fields per cell, decodable
static inline bool fmt_is_zin_view(int fmt) { return fmt >= F_PRC && fmt <= F_SRL; }
static inline bool fmt_is_scalar(int fmt) { return fmt >= F_IL; }

// deterministic little generator for perturbation directions (not case randomness)
static inline uint64_t sm64(uint64_t &s) { uint64_t z = (s += 0x9E3779B97F4A7C15ull); z = (z ^ (z >> 30)) * 0xBF58476D1CE4E5B9ull; z = (z ^ (z >> 27)) * 0x94D049BB133111EBull; return z ^ (z >> 31); }

// Element-wise sensitivity of a conversion: sens[i] ~ max |d out_i| / delta for relative perturbations
// of size delta of every input element and of every z0.  fn maps (N, z0) -> out, returns false if undefined.
template <class Fn>
static inline bool sensitivity(int n, const std::vector<cl> &NX, const std::vector<cl> &z0, Fn fn, std::vector<cl> &out, std::vector<ld> &sens) {
    if (!fn(NX, z0, out)) return false;
    sens.assign(out.size(), 0);
    const ld delta = 1e-9L;
    uint64_t s = 0x5EED5EEDull + (uint64_t)n;
    for (int trial = 0; trial < 4; trial++) {
        std::vector<cl> Np = NX, zp = z0, o2;
        for (auto &x : Np) { ld ph = (ld)(sm64(s) >> 11) / (ld)(1ull << 53) * 2 * PI_L; x *= cl(1) + std::polar<ld>(delta, ph); }
        for (auto &x : zp) { ld ph = (ld)(sm64(s) >> 11) / (ld)(1ull << 53) * 2 * PI_L; x *= cl(1) + std::polar<ld>(delta, ph); }
        if (!fn(Np, zp, o2) || o2.size() != out.size()) { for (auto &q : sens) q = INFINITY; return true; }
        for (size_t i = 0; i < out.size(); i++) { ld d = std::abs(o2[i] - out[i]) / delta; if (!(d <= sens[i])) sens[i] = d; }
    }
    return true;
}

} // namespace tsconv
