// apiexec_cal.hpp -- part of apiexec.hpp: vnacal_t, parameter and vnacal_new_t operations.
#pragma once

namespace apix {

static const char *const CAL_NAMES[] = {"a", "b", "c", "cal 1", "\xC3\xBCn\xC3\xAF"};

// ==================================================================================== vnacal_t ==
inline int Exec::need_cal() {
    if (cals.empty()) cal_new();
    return cals.empty() ? -1 : (int)c.draw(cals.size());
}

inline void Exec::cal_new() {
    if (cals.size() >= 2) cal_free((int)c.draw(cals.size()));
    auto K = std::make_unique<CalObj>();
    K->log.reset(new ErrLog);
    K->has_fn = !c.chance(1, 6);
    c.note("vnacal_create(%s)", K->has_fn ? "fn" : "NULL");
    Call k = mk("vnacal_create", XP_OK, C_SYSTEM, "valid");
    k.log = K->log.get(); k.has_fn = K->has_fn;
    ErrLog *lg = K->log.get(); bool hf = K->has_fn;
    K->p = pcall<vnacal_t>(k, [&] { return vnacal_create(hf ? errlog_fn : nullptr, hf ? lg : nullptr); });
    if (!K->p) return;
    for (int h = 0; h < 3; h++) { ParamRec q; q.h = h; q.predefined = true; q.value = mkc(h == 0 ? 0 : h == 1 ? 1 : -1, 0); K->params.push_back(q); }
    cals.push_back(std::move(K));
}

inline void Exec::cal_free(int i) {
    CalObj &K = *cals[i];
    if (quiet) { vnacal_free(K.p); cals.erase(cals.begin() + i); return; }
    // either free the attached vnacal_new_t structures first, or leave them to vnacal_free
    // ("vnacal_free() frees ... any associated vnacal_new_t structures")
    bool reap = c.chance(1, 3);
    if (!reap) while (!K.news.empty()) new_free(i, (int)K.news.size() - 1);
    c.note("vnacal_free(k%d)%s", i, K.news.empty() ? "" : " with vnacal_new_t attached");
    Call k = mk("vnacal_free", XP_EITHER, 0, "valid", O_CAL, i);
    vnacal_t *p = K.p;
    vcall(k, [&] { vnacal_free(p); });
    cals.erase(cals.begin() + i);
}

// a handle that is not valid in K: deleted, never allocated, negative
inline int Exec::bad_handle(CalObj &K, const char *&why) {
    std::vector<int> dead;
    for (auto &q : K.params) if (q.deleted && !K.handle_live(q.h)) dead.push_back(q.h);
    switch (c.weighted({dead.empty() ? 0u : 4u, 2, 2})) {
    case 0: why = "deleted-handle"; return dead[c.draw(dead.size())];
    case 1: why = "unallocated-handle"; return K.max_h + 1 + (int)c.draw(3) + (c.chance(1, 4) ? 1000 : 0);
    default: why = "negative-handle"; return -1 - (int)c.draw(2);
    }
}
// pool index of a live parameter (ok) or -1 with *hbad set to an invalid handle
inline int Exec::pick_param(CalObj &K, bool allow_bad, bool &ok, const char *&why) {
    std::vector<int> live;
    for (size_t q = 0; q < K.params.size(); q++) if (!K.params[q].deleted) live.push_back((int)q);
    if (allow_bad && c.chance(1, 4)) { ok = false; return -1; }
    (void)why;
    ok = true;
    return live[c.draw(live.size())];
}

inline int Exec::make_scalar(int ki, dcx v) {
    CalObj &K = *cals[ki];
    c.note("vnacal_make_scalar_parameter(k%d, %g%+gi)", ki, re_(v), im_(v));
    Call k = mk("vnacal_make_scalar_parameter", XP_OK, C_SYSTEM, "valid", O_CAL, ki);
    int h = icall(k, [&] { return vnacal_make_scalar_parameter(K.p, v); });
    if (h < 0) return -1;
    if (h < 3) return h;                    // the library may answer with the predefined handle of the same value
    ParamRec q; q.kind = ParamRec::SCALAR; q.h = h; q.value = v;
    K.params.push_back(q); K.max_h = std::max(K.max_h, h);
    check_param_index(ki, (int)K.params.size() - 1);
    return (int)K.params.size() - 1;
}
inline int Exec::make_vector(int ki, const std::vector<double> &fv, const std::vector<dcx> &gv) {
    CalObj &K = *cals[ki];
    Buf<double> f(fv.size()); Buf<dcx> g(gv.size());
    for (size_t j = 0; j < fv.size(); j++) { f[j] = fv[j]; g[j] = gv[j]; }
    c.note("vnacal_make_vector_parameter(k%d, [%zu] %g..%g)", ki, fv.size(), fv.empty() ? 0.0 : fv.front(), fv.empty() ? 0.0 : fv.back());
    Call k = mk("vnacal_make_vector_parameter", XP_OK, C_SYSTEM, "valid", O_CAL, ki);
    int h = icall(k, [&] { return vnacal_make_vector_parameter(K.p, f.p, (int)fv.size(), g.p); });
    if (h < 0) return -1;
    ParamRec q; q.kind = ParamRec::VECTOR; q.h = h; q.fv = fv; q.gv = gv;
    K.params.push_back(q); K.max_h = std::max(K.max_h, h);
    check_param_index(ki, (int)K.params.size() - 1);
    return (int)K.params.size() - 1;
}

// "indices returned on success are honoured": the new handle is not one of the other live ones, and the
// query / delete functions accept it
inline void Exec::check_param_index(int ki, int pidx) {
    CalObj &K = *cals[ki];
    ParamRec &q = K.params[pidx];
    char b[256];
    for (size_t j = 0; j < K.params.size(); j++) if ((int)j != pidx && !K.params[j].deleted && K.params[j].h == q.h) {
        snprintf(b, sizeof b, "handle %d returned for a new parameter is already held by a live parameter", q.h);
        obs->claim(false, "C11.index_not_distinct", b);
    }
    if (q.kind == ParamRec::SCALAR || q.kind == ParamRec::VECTOR) {
        double f = q.kind == ParamRec::VECTOR ? q.fv[0] : 1e6;
        Call k = mk("vnacal_get_parameter_value", XP_MUST, C_USAGE, "returned-handle", O_CAL, ki);
        dcx v = ccall(k, [&] { return vnacal_get_parameter_value(K.p, q.h, f); });
        if (q.kind == ParamRec::SCALAR && !k.failed) {      // "simply returns the fixed gamma value"
            snprintf(b, sizeof b, "get_parameter_value(handle %d) = %g%+gi, the scalar was made with %g%+gi", q.h, re_(v), im_(v), re_(q.value), im_(q.value));
            obs->claim(same_bits(v, q.value), "C11.index_wrong_object", b);
        }
    }
}

inline void Exec::cal_params(int ki) {
    CalObj &K = *cals[ki];
    int w = c.weighted({4, 4, 3, 3, 4});
    if (K.live_user_params() >= 12) w = 4;
    switch (w) {
    case 0: make_scalar(ki, c.chance(1, 5) ? mkc((double)c.range(-1, 1), 0) : gval()); break;
    case 1: {
        int how = c.weighted({6, 1, 1, 1, 1});
        int n = how == 1 ? (c.boolean() ? 0 : -1) : (int)c.range(1, 6);
        std::vector<double> fv; std::vector<dcx> gv;
        double f = 1e6 * (double)c.range(0, 500);
        for (int j = 0; j < std::max(n, 0); j++) { fv.push_back(f); gv.push_back(gval()); f += 1e6 * (double)c.range(1, 400); }
        const char *why = "valid";
        if (how == 1) why = "bad-count";
        else if (how == 2 && n >= 2) { std::swap(fv[0], fv[n - 1]); why = "not-ascending"; }
        else if (how == 3 && n >= 2) { fv[n - 1] = fv[n - 2]; why = "not-ascending"; }
        else if (how == 4) { fv[0] = -1e6; why = "negative-frequency"; }
        else how = 0;
        if (how == 0) { make_vector(ki, fv, gv); break; }
        Buf<double> fb(fv.size()); Buf<dcx> gb(gv.size());
        for (size_t j = 0; j < fv.size(); j++) { fb[j] = fv[j]; gb[j] = gv[j]; }
        c.note("vnacal_make_vector_parameter(k%d, n=%d)  [invalid: %s]", ki, n, why);
        Call k = mk("vnacal_make_vector_parameter", XP_FAIL, C_USAGE, why, O_CAL, ki);
        int h = icall(k, [&] { return vnacal_make_vector_parameter(K.p, fb.p, n, gb.p); });
        if (h >= 3) { ParamRec q; q.kind = ParamRec::VECTOR; q.h = h; q.fv = fv; q.gv = gv; K.params.push_back(q); K.max_h = std::max(K.max_h, h); }   // accepted although invalid: keep the books straight
        break;
    }
    case 2: {
        bool ok; const char *why = "valid";
        int pi = pick_param(K, true, ok, why);
        int h = ok ? K.params[pi].h : bad_handle(K, why);
        // vnacal_parameter(3): the guess is a predefined constant, a scalar or a vector parameter
        bool plain = ok && (K.params[pi].kind == ParamRec::SCALAR || K.params[pi].kind == ParamRec::VECTOR);
        c.note("vnacal_make_unknown_parameter(k%d, %d)%s", ki, h, ok ? "" : "  [invalid]");
        Call k = mk("vnacal_make_unknown_parameter", !ok ? XP_FAIL : plain ? XP_OK : XP_EITHER, C_USAGE, !ok ? why : plain ? "valid" : "guess-is-unknown", O_CAL, ki);
        int nh = icall(k, [&] { return vnacal_make_unknown_parameter(K.p, h); });
        if (nh >= 0 && ok) { ParamRec q; q.kind = ParamRec::UNKNOWN; q.h = nh; q.other = pi; K.params.push_back(q); K.max_h = std::max(K.max_h, nh); check_param_index(ki, (int)K.params.size() - 1); }
        break;
    }
    case 3: {
        bool ok; const char *why = "valid";
        int pi = pick_param(K, true, ok, why);
        int h = ok ? K.params[pi].h : bad_handle(K, why);
        // end of the guess chain
        int endn = 0;
        if (ok) { int e = pi; while (K.params[e].kind == ParamRec::UNKNOWN || K.params[e].kind == ParamRec::CORRELATED) e = K.params[e].other; if (K.params[e].kind == ParamRec::VECTOR) endn = (int)K.params[e].fv.size(); }
        int how = c.weighted({5, 3, 2, 1, 1, 1, 1, 1});
        if (how == 2 && ok) {      // grid borrowed from the guess: prefer a correlate whose chain ends in a vector parameter
            std::vector<int> cand;
            for (size_t q = 0; q < K.params.size(); q++) if (!K.params[q].deleted) {
                int e = (int)q; while (K.params[e].kind == ParamRec::UNKNOWN || K.params[e].kind == ParamRec::CORRELATED) e = K.params[e].other;
                if (K.params[e].kind == ParamRec::VECTOR && K.params[e].fv.size() >= 2) cand.push_back((int)q);
            }
            if (!cand.empty()) { pi = cand[c.draw(cand.size())]; h = K.params[pi].h; endn = 0; int e = pi; while (K.params[e].kind == ParamRec::UNKNOWN || K.params[e].kind == ParamRec::CORRELATED) e = K.params[e].other; endn = (int)K.params[e].fv.size(); }
        }
        int n = 1; bool fnull = true; Expect ex = XP_OK; const char *w2 = "valid";
        std::vector<double> sfv, sv;
        switch (how) {
        case 0: n = 1; fnull = c.boolean(); break;                                        // frequency independent
        case 1: n = (int)c.range(2, 5); fnull = false; break;                             // own grid
        case 2: if (endn >= 2) { n = endn; fnull = true; } else { n = 1; fnull = true; } break;   // grid of the guess vector
        case 3: n = c.boolean() ? 0 : -1; fnull = c.boolean(); ex = XP_FAIL; w2 = "bad-count"; break;
        case 4: n = (int)c.range(2, 5); if (n == endn) n++; fnull = true; ex = XP_FAIL; w2 = "null-grid-mismatch"; break;
        case 5: n = (int)c.range(1, 4); fnull = n == 1; ex = XP_FAIL; w2 = "nonpositive-sigma"; break;
        case 6: n = (int)c.range(2, 5); fnull = false; ex = XP_FAIL; w2 = "not-ascending"; break;
        default: n = (int)c.range(3, 5); fnull = false; ex = XP_EITHER; w2 = "close-spacing"; break;   // ascending, but closer than the spline accepts
        }
        // a wide grid (0.5 MHz .. 2 THz) overlaps every vector parameter and calibration range generated here
        for (int j = 0; j < std::max(n, 0); j++) { sfv.push_back(n == 1 ? 1e6 : 5e5 + (2e12 - 5e5) * j / (n - 1)); sv.push_back(1e-3 * (double)c.range(1, 100)); }
        if (how == 5) sv[c.draw(sv.size())] = c.boolean() ? 0.0 : -0.01;
        if (how == 6) std::swap(sfv[0], sfv[n - 1]);
        if (how == 7) { sfv[1] = sfv[0] + 1e-5; }
        if (!ok) { ex = XP_FAIL; w2 = why; }
        Buf<double> fb(sfv.size()), sb(sv.size());
        for (size_t j = 0; j < sfv.size(); j++) { fb[j] = sfv[j]; sb[j] = sv[j]; }
        c.note("vnacal_make_correlated_parameter(k%d, other %d, %s, n=%d)%s %s", ki, h, fnull ? "NULL" : "grid", n, ex == XP_FAIL ? "  [invalid]" : "", w2);
        Call k = mk("vnacal_make_correlated_parameter", ex, ex == XP_EITHER ? (C_USAGE | C_SYSTEM) : C_USAGE, w2, O_CAL, ki);
        int nh = icall(k, [&] { return vnacal_make_correlated_parameter(K.p, h, fnull ? nullptr : fb.p, n, sb.p); });
        if (nh >= 0 && ok) {
            ParamRec q; q.kind = ParamRec::CORRELATED; q.h = nh; q.other = pi; q.sfv_null = fnull; q.sfv = sfv; q.sv = sv;
            K.params.push_back(q); K.max_h = std::max(K.max_h, nh);
            if (ex != XP_FAIL) check_param_index(ki, (int)K.params.size() - 1);
        }
        break;
    }
    default: {
        bool ok; const char *why = "valid";
        int pi = pick_param(K, true, ok, why);
        int h = ok ? K.params[pi].h : bad_handle(K, why);
        bool predef = ok && K.params[pi].predefined;
        c.note("vnacal_delete_parameter(k%d, %d)%s", ki, h, ok ? "" : "  [invalid]");
        Call k = mk("vnacal_delete_parameter", !ok ? XP_FAIL : predef ? XP_EITHER : XP_MUST, C_USAGE, !ok ? why : predef ? "predefined" : "valid", O_CAL, ki);
        int rc = icall(k, [&] { return vnacal_delete_parameter(K.p, h); });
        if (rc == 0 && ok && !predef) K.params[pi].deleted = true;
        break;
    }
    }
}

inline void Exec::cal_param_query(int ki) {
    CalObj &K = *cals[ki];
    bool ok; const char *why = "valid";
    int pi = pick_param(K, true, ok, why);
    int h = ok ? K.params[pi].h : bad_handle(K, why);
    double f = 1e6 * (double)c.range(0, 1000);
    Expect ex = XP_OK;
    if (!ok) ex = XP_FAIL;
    else {
        ParamRec &q = K.params[pi];
        if (q.kind == ParamRec::VECTOR) {
            int how = c.weighted({5, 2, 2});
            if (how == 0) f = q.fv[c.draw(q.fv.size())];                                     // a knot
            else if (how == 1) { f = q.fv.back() * 1.5 + 1e6; ex = XP_FAIL; why = "frequency-out-of-range"; }
            else if (q.fv.front() > 2e6) { f = q.fv.front() * 0.5; ex = XP_FAIL; why = "frequency-out-of-range"; }
            else f = q.fv[0];
        } else if (q.kind != ParamRec::SCALAR) {
            // "returns the most recent value computed by vnacal_new_solve(), or fails if the parameter has not been solved":
            // the range that answers is the one of the LAST successful solve that used the parameter
            if (!q.solved) { ex = XP_FAIL; why = "unsolved-unknown"; }
            else if (q.solved_grid.empty()) { ex = XP_EITHER; why = "solved-unknown"; }
            else {
                const std::vector<double> &g = q.solved_grid;
                int how = c.weighted({4, 2, 1});
                if (how == 0) { f = g[c.draw(g.size())]; ex = XP_MUST; why = "solved-unknown:inside-last-range"; }
                else if (how == 1) { f = g.back() * 1.5 + 1e6; ex = XP_FAIL; why = "solved-unknown:outside-last-range"; }
                else if (g.front() > 2e6) { f = g.front() * 0.5; ex = XP_FAIL; why = "solved-unknown:outside-last-range"; }
                else { f = g.front(); ex = XP_MUST; why = "solved-unknown:inside-last-range"; }
            }
        }
    }
    c.note("vnacal_get_parameter_value(k%d, %d, %g)%s", ki, h, f, ex == XP_FAIL ? "  [invalid]" : "");
    Call k = mk("vnacal_get_parameter_value", ex, C_USAGE, why, O_CAL, ki);
    ccall(k, [&] { return vnacal_get_parameter_value(K.p, h, f); });
}

inline std::vector<int> Exec::live_cis(CalObj &K) {
    std::vector<int> v;
    int end = vnacal_get_calibration_end(K.p);
    for (int ci = 0; ci < end; ci++) if (vnacal_get_name(K.p, ci) != nullptr) v.push_back(ci);
    return v;
}

// the index returned by add_calibration / find_calibration is the one every query function honours
inline void Exec::check_cal_index(int ki, int ci, const std::string &name, NewObj *N) {
    CalObj &K = *cals[ki];
    char b[400];
    {
        Call k = mk("vnacal_get_name", XP_MUST, C_USAGE, "returned-index", O_CAL, ki); k.log = nullptr;
        const char *nm = pcall<const char>(k, [&] { return vnacal_get_name(K.p, ci); });
        snprintf(b, sizeof b, "index %d returned for calibration %s but vnacal_get_name(%d) says %s", ci, ascii(name).c_str(), ci, nm ? ascii(nm).c_str() : "NULL");
        obs->claim(nm && name == nm, "C11.index_wrong_object", b);
    }
    {
        Call k = mk("vnacal_find_calibration", XP_MUST, C_MISSING, "returned-index", O_CAL, ki); k.log = nullptr;
        int f = icall(k, [&] { return vnacal_find_calibration(K.p, name.c_str()); });
        snprintf(b, sizeof b, "index %d returned for calibration %s but vnacal_find_calibration finds it at %d", ci, ascii(name).c_str(), f);
        obs->claim(f == ci, "C11.index_wrong_object", b);
    }
    { Call k = mk("vnacal_get_calibration_end", XP_MUST, C_USAGE, "returned-index", O_CAL, ki); k.log = nullptr; int e = icall(k, [&] { return vnacal_get_calibration_end(K.p); });
      snprintf(b, sizeof b, "index %d returned but vnacal_get_calibration_end is %d", ci, e); obs->claim(e > ci, "C11.index_wrong_object", b); }
    if (N) {
        Call k1 = mk("vnacal_get_type", XP_MUST, C_USAGE, "returned-index", O_CAL, ki); k1.log = nullptr;
        int t = icall(k1, [&] { return (int)vnacal_get_type(K.p, ci); });
        Call k2 = mk("vnacal_get_rows", XP_MUST, C_USAGE, "returned-index", O_CAL, ki); k2.log = nullptr;
        int r = icall(k2, [&] { return vnacal_get_rows(K.p, ci); });
        Call k3 = mk("vnacal_get_columns", XP_MUST, C_USAGE, "returned-index", O_CAL, ki); k3.log = nullptr;
        int cc = icall(k3, [&] { return vnacal_get_columns(K.p, ci); });
        Call k4 = mk("vnacal_get_frequencies", XP_MUST, C_USAGE, "returned-index", O_CAL, ki); k4.log = nullptr;
        int F = icall(k4, [&] { return vnacal_get_frequencies(K.p, ci); });
        snprintf(b, sizeof b, "index %d returned for a %s %dx%d calibration with %d frequencies, the getters say type %d %dx%d with %d", ci, TNAME[N->ty], N->r, N->c, N->F, t, r, cc, F);
        obs->claim(t == (int)cs::LIBTYPE[N->ty] && r == N->r && cc == N->c && F == N->F, "C11.index_wrong_object", b);
        // "vnacal_new_set_frequency_vector() copies a vector of calibration frequency points into the vnacal_new_t":
        // the calibration carries the vector that was in force (last ACCEPTED) when it was solved -- a refused replacement changes nothing
        if (F == N->F && (int)N->solved_freq.size() == F && F > 0) {
            Call k5 = mk("vnacal_get_frequency_vector", XP_MUST, C_USAGE, "returned-index", O_CAL, ki); k5.log = nullptr;
            const double *fv = pcall<const double>(k5, [&] { return vnacal_get_frequency_vector(K.p, ci); });
            Call k6 = mk("vnacal_get_fmin", XP_MUST, C_USAGE, "returned-index", O_CAL, ki); k6.log = nullptr;
            double lo = dcall(k6, [&] { return vnacal_get_fmin(K.p, ci); });
            Call k7 = mk("vnacal_get_fmax", XP_MUST, C_USAGE, "returned-index", O_CAL, ki); k7.log = nullptr;
            double hi = dcall(k7, [&] { return vnacal_get_fmax(K.p, ci); });
            bool same = fv != nullptr;
            for (int f = 0; same && f < F; f++) if (!same_bits(fv[f], N->solved_freq[f])) same = false;
            snprintf(b, sizeof b, "calibration %d: frequencies %g..%g (fmin %g, fmax %g) are not the vector last accepted by vnacal_new_set_frequency_vector before the solve (%g..%g)", ci, fv ? fv[0] : 0.0, fv ? fv[F - 1] : 0.0, lo, hi, N->solved_freq.front(), N->solved_freq.back());
            obs->claim(same && same_bits(lo, N->solved_freq.front()) && same_bits(hi, N->solved_freq.back()), "C11.calibration_frequencies_not_the_accepted_ones", b);
        }
    }
}

inline void Exec::cal_calibrations(int ki) {
    CalObj &K = *cals[ki];
    switch (c.weighted({5, 2, 3})) {
    case 0: {   // add_calibration
        std::string name = CAL_NAMES[c.draw(sizeof CAL_NAMES / sizeof *CAL_NAMES)];
        NewObj *N = nullptr; int nk = ki, ni = -1; const char *why = "valid"; Expect ex = XP_OK;
        if (cals.size() == 2 && c.chance(1, 6) && !cals[1 - ki]->news.empty()) { nk = 1 - ki; ni = (int)c.draw(cals[nk]->news.size()); N = cals[nk]->news[ni].get(); ex = XP_FAIL; why = "foreign-vnacal_new"; }
        else if (!K.news.empty()) { ni = (int)c.draw(K.news.size()); N = K.news[ni].get(); if (!N->has_cal) { ex = XP_FAIL; why = "not-solved"; } }
        if (!N) { new_alloc(ki, true, true); if (K.news.empty()) return; ni = (int)K.news.size() - 1; N = K.news[ni].get(); ex = XP_FAIL; why = "not-solved"; }
        c.note("vnacal_add_calibration(k%d, %s, k%d.n%d)%s", ki, ascii(name).c_str(), nk, ni, ex == XP_FAIL ? "  [invalid]" : "");
        Call k = mk("vnacal_add_calibration", ex, C_USAGE, why, O_CAL, ki);
        // (the name of the calibration being replaced, or -- 1 in 4 -- of another live calibration, may be the library's own string)
        if (alias_turn(4)) { auto live = live_cis(K); if (!live.empty()) { const char *nm = vnacal_get_name(K.p, live[ncalls % live.size()]); if (nm) name = nm; } }
        const char *narg = name_arg(K, name, "vnacal_add_calibration");
        int ci = icall(k, [&] { return vnacal_add_calibration(K.p, narg, N->p); });
        if (ci >= 0 && ex == XP_OK) { N->has_cal = false; check_cal_index(ki, ci, name, N); }
        else if (ci >= 0 && nk == ki) N->has_cal = false;
        break;
    }
    case 1: {   // delete_calibration
        int end = vnacal_get_calibration_end(K.p);
        bool dummy = true; int ci = gidx(end, dummy);
        bool live = ci >= 0 && ci < end && vnacal_get_name(K.p, ci) != nullptr;
        c.note("vnacal_delete_calibration(k%d, %d)%s", ki, ci, live ? "" : "  [invalid]");
        // a missing index is answered with ENOENT by the code and is an "invalid parameter" (EINVAL) by vnacal(3): both accepted
        Call k = mk("vnacal_delete_calibration", live ? XP_MUST : XP_FAIL, C_USAGE | C_MISSING, live ? "valid" : "bad-index", O_CAL, ki); k.log = K.log.get();
        icall(k, [&] { return vnacal_delete_calibration(K.p, ci); });
        break;
    }
    default: {  // find_calibration
        std::string name = c.chance(1, 5) ? "no such name" : CAL_NAMES[c.draw(sizeof CAL_NAMES / sizeof *CAL_NAMES)];
        bool present = false;
        for (int ci : live_cis(K)) if (name == vnacal_get_name(K.p, ci)) present = true;
        c.note("vnacal_find_calibration(k%d, %s)%s", ki, ascii(name).c_str(), present ? "" : "  [missing]");
        Call k = mk("vnacal_find_calibration", present ? XP_OK : XP_FAIL, C_MISSING, present ? "valid" : "missing-name", O_CAL, ki);
        const char *narg = name_arg(K, name, "vnacal_find_calibration");
        int ci = icall(k, [&] { return vnacal_find_calibration(K.p, narg); });
        if (ci >= 0) check_cal_index(ki, ci, name, nullptr);
        break;
    }
    }
}

inline void Exec::cal_getters(int ki) {
    CalObj &K = *cals[ki];
    int end = vnacal_get_calibration_end(K.p);
    bool dummy = true; int ci = gidx(end, dummy);
    bool live = ci >= 0 && ci < end && vnacal_get_name(K.p, ci) != nullptr;
    c.note("vnacal getters(k%d, %d)%s", ki, ci, live ? "" : "  [invalid]");
    Expect ex = live ? XP_OK : XP_FAIL; const char *why = live ? "valid" : "bad-index"; unsigned cz = C_USAGE | C_MISSING;
    { Call k = mk("vnacal_get_name", ex, cz, why, O_CAL, ki); pcall<const char>(k, [&] { return vnacal_get_name(K.p, ci); }); }
    { Call k = mk("vnacal_get_type", ex, cz, why, O_CAL, ki); icall(k, [&] { return (int)vnacal_get_type(K.p, ci); }); }
    { Call k = mk("vnacal_get_rows", ex, cz, why, O_CAL, ki); icall(k, [&] { return vnacal_get_rows(K.p, ci); }); }
    { Call k = mk("vnacal_get_columns", ex, cz, why, O_CAL, ki); icall(k, [&] { return vnacal_get_columns(K.p, ci); }); }
    { Call k = mk("vnacal_get_frequencies", ex, cz, why, O_CAL, ki); icall(k, [&] { return vnacal_get_frequencies(K.p, ci); }); }
    { Call k = mk("vnacal_get_fmin", ex, cz, why, O_CAL, ki); dcall(k, [&] { return vnacal_get_fmin(K.p, ci); }); }
    { Call k = mk("vnacal_get_fmax", ex, cz, why, O_CAL, ki); dcall(k, [&] { return vnacal_get_fmax(K.p, ci); }); }
    { Call k = mk("vnacal_get_frequency_vector", ex, cz, why, O_CAL, ki); pcall<const double>(k, [&] { return vnacal_get_frequency_vector(K.p, ci); }); }
    { Call k = mk("vnacal_get_z0", ex, cz, why, O_CAL, ki); ccall(k, [&] { return vnacal_get_z0(K.p, ci); }); }
    { Call k = mk("vnacal_get_calibration_end", XP_OK, cz, "valid", O_CAL, ki); icall(k, [&] { return vnacal_get_calibration_end(K.p); }); }
    (void)vnacal_get_filename(K.p);      // NULL is the documented answer before the first save
}

inline void Exec::cal_props(int ki) {
    CalObj &K = *cals[ki];
    auto live = live_cis(K);
    int how = c.weighted({5, live.empty() ? 0u : 5u, 2});
    if (how == 2) {     // no calibration has this index
        int end = vnacal_get_calibration_end(K.p);
        int ci; do { ci = (int)c.range(-2, end + 1); } while (ci == -1 || std::find(live.begin(), live.end(), ci) != live.end());
        int f = (int)c.draw(4);
        c.note("vnacal_property fn %d (k%d, ci %d)  [invalid index]", f, ki, ci);
        static const char *const fn[4] = {"vnacal_property_set", "vnacal_property_get", "vnacal_property_type", "vnacal_property_delete"};
        Call k = mk(fn[f], XP_FAIL, C_USAGE | C_MISSING, "bad-index", O_CAL, ki);
        switch (f) {
        case 0: icall(k, [&] { return vnacal_property_set(K.p, ci, "a=1"); }); break;
        case 1: pcall<const char>(k, [&] { return vnacal_property_get(K.p, ci, "a"); }); break;
        case 2: icall(k, [&] { return vnacal_property_type(K.p, ci, "."); }); break;
        default: icall(k, [&] { return vnacal_property_delete(K.p, ci, "a"); }); break;
        }
        return;
    }
    int ci = how == 0 ? -1 : live[c.draw(live.size())];
    vnaproperty_t *root = vnacal_property_get_subtree(K.p, ci, ".");
    size_t before = ncalls;
    prop_ops(&root, O_CAL, ki, ci, &K);
    (void)before;
}

inline void Exec::cal_precision(int ki) {
    CalObj &K = *cals[ki];
    static const int pv[] = {1, 2, 3, 6, 7, 9, 12, 17, 40, VNACAL_MAX_PRECISION, 0, -1};
    int pr = pv[c.draw(sizeof pv / sizeof *pv)];
    bool ok = pr >= 1, fp = c.boolean();
    c.note("vnacal_set_%cprecision(k%d, %d)%s", fp ? 'f' : 'd', ki, pr, ok ? "" : "  [invalid]");
    Call k = mk(fp ? "vnacal_set_fprecision" : "vnacal_set_dprecision", ok ? XP_OK : XP_FAIL, C_USAGE, ok ? "valid" : "bad-precision", O_CAL, ki);
    if (fp) icall(k, [&] { return vnacal_set_fprecision(K.p, pr); }); else icall(k, [&] { return vnacal_set_dprecision(K.p, pr); });
}

inline void Exec::cal_save(int ki) {
    CalObj &K = *cals[ki];
    if (c.chance(1, 6)) {
        c.note("vnacal_save(k%d, /nonexistent-dir-apix/x.vnacal)  [unwritable]", ki);
        Call k = mk("vnacal_save", XP_FAIL, C_SYSTEM | C_MISSING, "unwritable-path", O_CAL, ki);
        icall(k, [&] { return vnacal_save(K.p, "/nonexistent-dir-apix/x.vnacal"); });
        return;
    }
    MemFd mf;
    c.note("vnacal_save(k%d, memfd)", ki);
    Call k = mk("vnacal_save", XP_OK, C_SYSTEM, "valid", O_CAL, ki);
    int rc = icall(k, [&] { return vnacal_save(K.p, mf.path.c_str()); });
    if (rc == 0) { did_saveload = true; if (cfiles.size() >= 3) cfiles.erase(cfiles.begin()); cfiles.push_back(mf.get()); }
}

inline void Exec::cal_load() {
    int how = c.weighted({cfiles.empty() ? 0u : 6u, 1, 1, 1, 1, 1});
    std::string text; Expect ex = XP_FAIL; unsigned cz = C_SYNTAX; const char *why = "";
    switch (how) {
    case 0: text = cfiles[c.draw(cfiles.size())]; ex = XP_OK; cz = C_SYNTAX | C_SYSTEM; why = "own-output"; break;
    case 1: text = ""; why = "empty-file"; break;
    case 2: text = "hello world\nfoo: bar\n"; why = "bad-magic"; break;
    case 3: text = "#VNACal 9.0\ncalibrations: []\n"; cz = C_VERSION; why = "unsupported-version"; break;
    case 4: text = "#VNACal 1.0\ncalibrations: [ {name: 'x\n"; why = "yaml-syntax"; break;
    default: cz = C_SYSTEM | C_MISSING; why = "missing-file"; break;
    }
    auto K = std::make_unique<CalObj>();
    K->log.reset(new ErrLog);
    K->has_fn = !c.chance(1, 6);
    MemFd mf; mf.put(text);
    std::string path = how == 5 ? std::string("/nonexistent-dir-apix/x.vnacal") : mf.path;
    c.note("vnacal_load(%s, %s)%s", why, K->has_fn ? "fn" : "NULL", ex == XP_FAIL ? "  [invalid]" : "");
    Call k = mk("vnacal_load", ex, cz, why);
    k.log = K->log.get(); k.has_fn = K->has_fn; k.late = true;
    ErrLog *lg = K->log.get(); bool hf = K->has_fn;
    K->p = pcall<vnacal_t>(k, [&] { return vnacal_load(path.c_str(), hf ? errlog_fn : nullptr, hf ? lg : nullptr); });
    if (!K->p) return;
    did_saveload = true;
    for (int h = 0; h < 3; h++) { ParamRec q; q.h = h; q.predefined = true; q.value = mkc(h == 0 ? 0 : h == 1 ? 1 : -1, 0); K->params.push_back(q); }
    if (cals.size() >= 2) cal_free((int)c.draw(cals.size()));
    cals.push_back(std::move(K));
}

inline void Exec::cal_apply(int ki) {
    CalObj &K = *cals[ki];
    int di = need_data();
    if (di < 0) return;
    int end = vnacal_get_calibration_end(K.p);
    bool dummy = true; int ci = end > 0 && !c.chance(1, 5) ? (int)c.draw(end) : gidx(end, dummy);
    bool live = ci >= 0 && ci < end && vnacal_get_name(K.p, ci) != nullptr;
    Expect ex = XP_OK; const char *why = "valid";
    int R = 1, Cc = 1, CF = 1, type = 0; double fmin = 1e6, fmax = 1e9;
    if (!live) { ex = XP_FAIL; why = "bad-index"; }
    else {
        R = vnacal_get_rows(K.p, ci); Cc = vnacal_get_columns(K.p, ci); CF = vnacal_get_frequencies(K.p, ci); type = (int)vnacal_get_type(K.p, ci);
        if (CF < 1) { excl_zero_freq = true; return; }          // open finding: calibration without frequencies
        fmin = vnacal_get_fmin(K.p, ci); fmax = vnacal_get_fmax(K.p, ci);
        // "The dimensions of the calibration must also be square ... with the exception that a 1x2 or 2x1 calibration can be used"
        if (R != Cc && std::max(R, Cc) != 2) { ex = XP_FAIL; why = "non-square-calibration"; }
    }
    int P = std::max(R, Cc);
    // frequencies
    int fhow = c.weighted({8, 2, 1, 1, 1});
    int nf = (int)c.range(1, 4);
    std::vector<double> fv;
    if (fhow == 3) nf = 0; else if (fhow == 4) nf = -1;
    for (int j = 0; j < std::max(nf, 0); j++) fv.push_back(nf == 1 ? fmin : fmin + (fmax - fmin) * j / (nf - 1));
    if (nf >= 2 && fmax <= fmin) { nf = 1; fv.resize(1); }
    if (fhow == 1 && nf >= 1) { fv.back() = fmax * 1.5 + 1e6; if (ex != XP_FAIL) { ex = XP_FAIL; why = "frequency-out-of-range"; } }
    if (fhow == 2 && nf >= 2) { std::swap(fv[0], fv[nf - 1]); if (ex != XP_FAIL) { ex = XP_FAIL; why = "not-ascending"; } }
    if (fhow == 3 && ex != XP_FAIL) { ex = XP_EITHER; why = "zero-frequencies"; }     // vnacal(3): a vector of length frequencies; 0 is not excluded
    if (fhow == 4 && ex != XP_FAIL) { ex = XP_FAIL; why = "bad-count"; }
    // matrices
    bool ab = c.boolean();
    int br = P, bc = P;
    int mhow = c.weighted({8, 1, 1, 1});
    if (mhow == 1) br = P + 1; else if (mhow == 2) bc = c.boolean() ? 0 : -1; else if (mhow == 3) { br = P + 1; bc = P + 1; }
    if (mhow != 0 && ex != XP_FAIL) { ex = XP_FAIL; why = "bad-matrix-dimensions"; }
    bool colsys = type == VNACAL_E12 || type == VNACAL_UE14;
    int ar = colsys ? 1 : bc, ac = bc;
    if (ab && c.chance(1, 8)) { ar += 1; if (ex != XP_FAIL) { ex = XP_FAIL; why = "bad-a-dimensions"; } }
    int nfa = std::max(nf, 0);
    PMat B(br, bc, nfa), A(ar, ac, nfa);
    for (auto &cell : B.cells) for (size_t j = 0; j < cell.n; j++) cell[j] = gval();
    for (size_t q = 0; q < A.cells.size(); q++) for (size_t j = 0; j < A.cells[q].n; j++)
        A.cells[q][j] = (colsys || (ac > 0 && (int)q / ac == (int)q % ac)) ? mkc(1 + c.unit(), c.unit()) : mkc(0.1 * c.unit(), 0);
    if (ab && ex == XP_OK && c.chance(1, 6)) {     // vnacal(3) EDOM: "The a matrix given to vnacal_apply() ... is singular"
        for (auto &cell : A.cells) for (size_t j = 0; j < cell.n; j++) cell[j] = mkc(0, 0);
        ex = XP_EITHER; why = "singular-a";
    }
    Buf<double> fb(fv.size()); for (size_t j = 0; j < fv.size(); j++) fb[j] = fv[j];
    c.note("vnacal_apply%s(k%d, ci %d, nf=%d, %s%dx%d -> d%d)%s %s", ab ? "" : "_m", ki, ci, nf, ab ? "a/b " : "m ", br, bc, di, ex == XP_FAIL ? "  [invalid]" : "", why);
    vnadata_t *out = datas[di]->p;
    // refused calls are refused before the output is touched: the vnadata_t must be unchanged
    Call k = mk(ab ? "vnacal_apply" : "vnacal_apply_m", ex, ex == XP_FAIL ? C_USAGE : (C_USAGE | C_MATH | C_SYSTEM), why, O_DATA, di);
    k.log = K.log.get(); k.has_fn = K.has_fn; k.late = ex != XP_FAIL;
    ErrLog *lo = datas[di]->log.get();
    if (ab) icall(k, [&] { int rc = vnacal_apply(K.p, ci, fb.p, nf, A.p(), ar, ac, B.p(), br, bc, out); for (auto &r : lo->recs) k.log->recs.push_back(r); lo->clear(); return rc; });
    else icall(k, [&] { int rc = vnacal_apply_m(K.p, ci, fb.p, nf, B.p(), br, bc, out); for (auto &r : lo->recs) k.log->recs.push_back(r); lo->clear(); return rc; });
}

inline void Exec::cal_names() {
    static const char *const names[] = {"T8", "u8", "Te10", "UE10", "t16", "U16", "UE14", "E12", "bogus", "", "E13", "T"};
    std::string nm = names[c.draw(sizeof names / sizeof *names)];
    bool known = false; for (int t = 0; t < 8; t++) if (!strcasecmp(nm.c_str(), TNAME[t])) known = true;
    c.note("vnacal_name_to_type(%s)", nm.c_str());
    // "If the name doesn't match any type, the function returns -1" (errno not documented, no error function)
    Call k = mk("vnacal_name_to_type", known ? XP_OK : XP_FAIL, 0, known ? "valid" : "unknown-name"); k.log = nullptr; k.check_errno = false;
    icall(k, [&] { return (int)vnacal_name_to_type(nm.c_str()); });
    int t = c.chance(1, 4) ? (c.boolean() ? -1 : 9 + (int)c.draw(3)) : (int)cs::LIBTYPE[c.draw(8)];
    (void)vnacal_type_to_name((vnacal_type_t)t);       // no failure value documented: only "no crash"
}

inline void Exec::op_cal() {
    int w = c.weighted({14, 1, 1, 8, 4, 6, 5, 6, 3, 3, 2, 5, 1});
    if (w == 1) { cal_new(); return; }
    if (w == 10) { cal_load(); return; }
    if (w == 12) { cal_names(); return; }
    int ki = need_cal();
    if (ki < 0) return;
    if ((w == 5 || w == 6 || w == 7 || w == 11) && live_cis(*cals[ki]).empty() && c.chance(1, 2)) quick_calibration(ki);
    switch (w) {
    case 0: case 3: cal_params(ki); break;
    case 2: cal_free(ki); break;
    case 4: cal_param_query(ki); break;
    case 5: cal_calibrations(ki); break;
    case 6: cal_getters(ki); break;
    case 7: cal_props(ki); break;
    case 8: cal_precision(ki); break;
    case 9: cal_save(ki); break;
    default: cal_apply(ki); break;
    }
}

} // namespace apix
#include "apiexec_new.hpp"
