// pbt.hpp -- choice-sequence ("tape") property-based testing engine.
//
// One harness = one executable.  The harness defines
//     const char *PBT_PROPERTY = "C15";
//     void pbt_property(pbt::Ctx &c);       // generate a case from c.draw*() and check it
// and links pbt_main.cpp (which provides main()).
//
// Every random decision of a case goes through Ctx::draw(n) and is recorded
// on a tape of integers.  A case is therefore a pure function of its tape:
//   * replay   = run the property with the tape as the source of choices;
//   * shrink   = delete / zero / lower tape entries, each candidate run in a
//                forked child, so sanitizer aborts, asserts and hangs shrink
//                exactly like oracle failures;
//   * enumerate= odometer over all tapes (bounded-exhaustive small scope);
//   * fuzz     = libFuzzer bytes decoded as a tape (pbt_fuzz.cpp).
// Convention for generators: 0 is always the simplest choice.
#pragma once
#include <unistd.h>
#include <cstdint>
#include <cstdio>
#include <cstdlib>
#include <cstring>
#include <cstdarg>
#include <cmath>
#include <string>
#include <vector>
#include <set>
#include <map>

namespace pbt {

struct Fail {
    std::string code;   // stable name of the oracle assertion
    std::string msg;    // free text
};

static inline uint64_t splitmix64(uint64_t &s) {
    uint64_t z = (s += 0x9E3779B97F4A7C15ull);
    z = (z ^ (z >> 30)) * 0xBF58476D1CE4E5B9ull;
    z = (z ^ (z >> 27)) * 0x94D049BB133111EBull;
    return z ^ (z >> 31);
}
static inline uint64_t mix(uint64_t a, uint64_t b) {
    uint64_t s = a ^ (b * 0x9E3779B97F4A7C15ull + 0x1234567ull);
    return splitmix64(s);
}

enum { TAPE_CAP = 1 << 20, MARK_CAP = 1 << 14 };

// Shared between supervisor and forked worker (MAP_SHARED).
struct Shared {
    volatile uint64_t case_index;      // index of the case being run
    volatile uint64_t case_seed;       // rng seed of the case being run
    volatile uint32_t case_size;       // size parameter of that case
    volatile uint64_t case_start_ns;   // monotonic time the case started
    volatile uint64_t evaluations;
    volatile uint64_t nontrivial;
    volatile uint32_t status;          // 0 running, 1 pass, 2 fail (single-case modes)
    volatile uint32_t flags;           // bit0: nontrivial (single-case modes)
    char code[128];
    char msg[4096];
    volatile uint64_t tape_len;        // entries consumed so far
    volatile uint32_t nmarks;          // structural boundaries (tape positions) for the shrinker
    uint32_t marks[MARK_CAP];
    uint64_t tape[TAPE_CAP];
    uint64_t arity[TAPE_CAP];
};

struct Ctx {
    // --- choice source ---
    Shared *sh = nullptr;              // tape storage (always shared memory)
    std::vector<uint64_t> in;          // replay input (empty in generate mode)
    bool replay = false;
    uint64_t rng = 0;
    size_t pos = 0;
    bool overrun = false;              // replay ran past the end of the input tape
    // --- parameters ---
    int size = 30;                     // 0..100, scales lengths
    bool exhaustive = false;           // harness should use its small-scope alphabet
    bool want_desc = false;            // collect human-readable description
    // --- outputs (fixed storage: a passing case must not change the heap, see run_one) ---
    bool is_nontrivial = false;
    int label_ids[96]; int nlabels = 0;
    int max_ids[48]; double max_vals[48]; int nmax = 0;
    std::string desc;
    int desc_fd = -1;                  // notes are also streamed here (survives a crash of the case)

    uint64_t draw(uint64_t n) {
        if (n == 0) n = 1;
        uint64_t r;
        if (replay) {
            if (pos < in.size()) { r = in[pos]; if (r >= n) r = n - 1; }
            else { r = 0; overrun = true; }
        } else {
            r = splitmix64(rng) % n;
        }
        if (pos < TAPE_CAP) { sh->tape[pos] = r; sh->arity[pos] = n; }
        else throw Fail{"pbt.tape_overflow", "case too large"};
        pos++;
        sh->tape_len = pos;
        return r;
    }
    // integer in [lo, hi], simplest = lo
    int64_t range(int64_t lo, int64_t hi) { return lo + (int64_t)draw((uint64_t)(hi - lo) + 1); }
    bool boolean() { return draw(2) != 0; }
    // true with probability num/den; false is simplest
    bool chance(unsigned num, unsigned den) { return draw(den) >= den - num; }
    // pick an index by weights; index 0 is simplest
    int weighted(std::initializer_list<unsigned> w) {
        unsigned tot = 0; for (unsigned x : w) tot += x;
        uint64_t r = draw(tot); int i = 0;
        for (unsigned x : w) { if (r < x) return i; r -= x; i++; }
        return i - 1;
    }
    // uniform in [0,1), simplest 0
    double unit() { return (double)draw(1ull << 53) / (double)(1ull << 53); }
    // uniform real in [lo,hi), simplest lo
    double real(double lo, double hi) { return lo + (hi - lo) * unit(); }
    // "continue?" flag for list generation: expected length ~ size-scaled mean
    bool more(size_t have, size_t mean, size_t max) {
        if (have >= max) return false;
        if (exhaustive) return draw(2) != 0;
        return draw(mean + 1) != 0;
    }
    template <class T> const T &pick(const std::vector<T> &v) { return v[draw(v.size())]; }

    // mark a structural boundary (start of an operation / list element): the
    // shrinker tries to delete whole spans between marks
    void mark() { uint32_t n = sh->nmarks; if (n < MARK_CAP) { sh->marks[n] = (uint32_t)pos; sh->nmarks = n + 1; } }
    void label(const std::string &s) {
        int id = intern(s);
        for (int i = 0; i < nlabels; i++) if (label_ids[i] == id) return;
        if (nlabels < 96) label_ids[nlabels++] = id;
    }
    void nontrivial() { is_nontrivial = true; }
    void track_max(const std::string &k, double v) {
        int id = intern(k);
        for (int i = 0; i < nmax; i++) if (max_ids[i] == id) { if (v > max_vals[i]) max_vals[i] = v; return; }
        if (nmax < 48) { max_ids[nmax] = id; max_vals[nmax] = v; nmax++; }
    }
    // process-wide string table (allocates only the first time a name is seen)
    static std::vector<std::string> &names() { static std::vector<std::string> v; return v; }
    static int intern(const std::string &s) {
        static std::map<std::string, int> m;
        auto it = m.find(s);
        if (it != m.end()) return it->second;
        int id = (int)names().size(); names().push_back(s); m[s] = id; return id;
    }
    void note(const char *fmt, ...) __attribute__((format(printf, 2, 3))) {
        if (!want_desc) return;
        char buf[2048];
        va_list ap; va_start(ap, fmt); vsnprintf(buf, sizeof buf, fmt, ap); va_end(ap);
        if (desc.size() < 60000) { desc += buf; desc += '\n'; }
        if (desc_fd >= 0) { size_t n = strlen(buf); buf[n] = '\n'; ssize_t w = ::write(desc_fd, buf, n + 1); (void)w; }
    }
    [[noreturn]] void fail(const char *code, const char *fmt, ...) __attribute__((format(printf, 3, 4))) {
        char buf[3000];
        va_list ap; va_start(ap, fmt); vsnprintf(buf, sizeof buf, fmt, ap); va_end(ap);
        throw Fail{code, buf};
    }
};

#define PBT_CHECK(c, cond, code, ...) do { if (!(cond)) (c).fail(code, __VA_ARGS__); } while (0)

} // namespace pbt

// Provided by the harness:
extern const char *PBT_PROPERTY;
void pbt_property(pbt::Ctx &c);
// Optional hooks (weak defaults in pbt_main.cpp):
void pbt_global_setup();                       // once per process
void pbt_extra_json(FILE *f);                  // extra "key": value, pairs for the stats file
