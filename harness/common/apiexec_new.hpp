// apiexec_new.hpp -- part of apiexec.hpp: vnacal_new_t operations.  Every vnacal_new_t carries a
// calscen scenario (random error box, frequencies): all valid standards are consistent measurements of
// that box, so the object can actually be solved, added and applied.
#pragma once

namespace apix {

static const long double APIX_EPS = 1.1102230246251565e-16L;

// arguments of one vnacal_new_add_* call (declared dimensions, exact-size buffers); shared with the
// clone history
struct AddArgs {
    int entry = 0; bool ab = false;
    std::shared_ptr<PMat> A, B;
    int ar = 0, ac = 0, br = 0, bc = 0;
    std::vector<int> pidx;          // pool indices of the S parameters (-1: use raw handle)
    std::vector<int> raw;           // raw handle per cell (used when pidx < 0: invalid handles)
    std::vector<int> map;           // 1-based VNA ports
    bool null_map = false;
    int s_rows = 0, s_cols = 0;
};
static inline const char *add_fn_name(int entry, bool ab) {
    static const char *const n[5][2] = {
        {"vnacal_new_add_single_reflect_m", "vnacal_new_add_single_reflect"}, {"vnacal_new_add_double_reflect_m", "vnacal_new_add_double_reflect"},
        {"vnacal_new_add_through_m", "vnacal_new_add_through"}, {"vnacal_new_add_line_m", "vnacal_new_add_line"},
        {"vnacal_new_add_mapped_matrix_m", "vnacal_new_add_mapped_matrix"}};
    return n[entry][ab ? 1 : 0];
}
static inline int do_add(vnacal_new_t *vnp, const AddArgs &a, const std::vector<int> &h) {
    dcx **A = a.A ? a.A->p() : nullptr; dcx **B = a.B->p();
    Buf<int> hb(h.size()); for (size_t i = 0; i < h.size(); i++) hb[i] = h[i];
    Buf<int> mb(a.map.size()); for (size_t i = 0; i < a.map.size(); i++) mb[i] = a.map[i];
    switch (a.entry) {
    case cs::Standard::SINGLE:
        return a.ab ? vnacal_new_add_single_reflect(vnp, A, a.ar, a.ac, B, a.br, a.bc, h[0], a.map[0]) : vnacal_new_add_single_reflect_m(vnp, B, a.br, a.bc, h[0], a.map[0]);
    case cs::Standard::DOUBLE:
        return a.ab ? vnacal_new_add_double_reflect(vnp, A, a.ar, a.ac, B, a.br, a.bc, h[0], h[1], a.map[0], a.map[1]) : vnacal_new_add_double_reflect_m(vnp, B, a.br, a.bc, h[0], h[1], a.map[0], a.map[1]);
    case cs::Standard::THROUGH:
        return a.ab ? vnacal_new_add_through(vnp, A, a.ar, a.ac, B, a.br, a.bc, a.map[0], a.map[1]) : vnacal_new_add_through_m(vnp, B, a.br, a.bc, a.map[0], a.map[1]);
    case cs::Standard::LINE:
        return a.ab ? vnacal_new_add_line(vnp, A, a.ar, a.ac, B, a.br, a.bc, hb.p, a.map[0], a.map[1]) : vnacal_new_add_line_m(vnp, B, a.br, a.bc, hb.p, a.map[0], a.map[1]);
    default:
        return a.ab ? vnacal_new_add_mapped_matrix(vnp, A, a.ar, a.ac, B, a.br, a.bc, hb.p, a.s_rows, a.s_cols, a.null_map ? nullptr : mb.p)
                    : vnacal_new_add_mapped_matrix_m(vnp, B, a.br, a.bc, hb.p, a.s_rows, a.s_cols, a.null_map ? nullptr : mb.p);
    }
}

struct RunnerGuard {      // borrow calscen's Runner without letting it free our objects
    cs::Runner run;
    RunnerGuard(Ctx &c, cs::Scenario &sc, vnacal_t *vcp, vnacal_new_t *vnp) : run(c, sc) { run.vcp = vcp; run.vnp = vnp; }
    ~RunnerGuard() { run.vcp = nullptr; run.vnp = nullptr; }
};

inline int Exec::need_new(int ki) {
    CalObj &K = *cals[ki];
    if (K.news.empty()) new_alloc(ki, true);
    return K.news.empty() ? -1 : (int)c.draw(K.news.size());
}

inline void Exec::new_alloc(int ki, bool force_valid, bool small, const AllocSpec *spec) {
    CalObj &K = *cals[ki];
    if (K.news.size() >= 3) new_free(ki, (int)c.draw(K.news.size()));
    int ty = (int)c.draw(8), r, cc, F;
    cs::gen_dims(c, ty, small ? 2 : (c.chance(1, 10) ? 4 : 3), r, cc);
    F = 1 + c.weighted({5, 3, 2, 1, 1, 1});
    if (spec) { force_valid = true; if (spec->ty >= 0) { ty = spec->ty; r = spec->r; cc = spec->c; } F = spec->F; }
    int type = (int)cs::LIBTYPE[ty];
    const char *why = "valid"; bool ok = true;
    if (!force_valid && c.chance(1, 6)) {
        ok = false;
        switch (c.draw(7)) {
        case 0: r = c.boolean() ? 0 : -1; why = "bad-dimension"; break;
        case 1: cc = c.boolean() ? 0 : -1; why = "bad-dimension"; break;
        case 2: type = c.boolean() ? -1 : 9 + (int)c.draw(2); why = "bad-enum"; break;
        case 3: type = 7; why = "internal-enum"; break;          // _VNACAL_E12_UE14: "internal only"
        case 4: F = -1; why = "bad-count"; break;
        default:  // T types need rows <= columns, U/E types rows >= columns
            if (vm::is_T(ty)) { r = cc + 1; } else { cc = r + 1; }
            why = "type-shape-mismatch"; break;
        }
    } else if (!force_valid && c.chance(1, 20)) F = 0;
    c.note("vnacal_new_alloc(k%d, %s(%d), %d,%d,%d)%s", ki, ok ? TNAME[ty] : "?", type, r, cc, F, ok ? "" : "  [invalid]");
    Call k = mk("vnacal_new_alloc", ok ? XP_OK : XP_FAIL, C_USAGE, why, O_CAL, ki);
    vnacal_new_t *p = pcall<vnacal_new_t>(k, [&] { return vnacal_new_alloc(K.p, (vnacal_type_t)type, r, cc, F); });
    if (!p) return;
    if (!ok) {     // accepted although invalid (C03 has already failed the case): drop it
        Call kf = mk("vnacal_new_free", XP_EITHER, 0, "valid"); vcall(kf, [&] { vnacal_new_free(p); });
        return;
    }
    if (F == 0) {
        // OPEN FINDING zero-frequency-calibration: vnacal_new_alloc accepts frequencies == 0, but
        // set_frequency_vector, the parameter range checks, get_fmin/fmax, apply ... then read element 0 and -1
        // of empty vectors.  Excluded by construction: the object only sees calls that do not touch frequencies.
        excl_zero_freq = true;
        if (!no_exclude) {
            Call k1 = mk("vnacal_new_set_z0", XP_OK, C_USAGE, "valid"); k1.log = K.log.get(); k1.has_fn = K.has_fn;
            icall(k1, [&] { return vnacal_new_set_z0(p, mkc(75, 0)); });
            Call k2 = mk("vnacal_new_solve", XP_EITHER, C_USAGE | C_MATH, "no-frequency-vector"); k2.log = K.log.get(); k2.has_fn = K.has_fn; k2.late = true;
            icall(k2, [&] { return vnacal_new_solve(p); });
            Call kf = mk("vnacal_new_free", XP_EITHER, 0, "valid"); vcall(kf, [&] { vnacal_new_free(p); });
            return;
        }
    }
    auto N = std::make_unique<NewObj>();
    N->p = p; N->ty = ty; N->r = r; N->c = cc; N->F = F;
    cs::Scenario &sc = N->sc;
    sc.type = ty; sc.r = r; sc.c = cc; sc.P = std::max(r, cc); sc.F = F; sc.ab = false;
    sc.freq = (spec && !spec->freq.empty()) ? spec->freq : cs::gen_freqs(c, F);
    for (int f = 0; f < F; f++) sc.box.push_back(cs::gen_box(c, ty, r, cc));
    if (F > 0) {
        cs::Gen g(c, sc);
        g.baseline(); g.cover_leakage(); g.shuffle();
        N->todo.swap(sc.stds);
    }
    K.news.push_back(std::move(N));
    int ni = (int)K.news.size() - 1;
    if (spec && spec->defer_freq) return;
    // 1 in 4 objects get their frequency vector later, after some standards ("setfreq-after-adds")
    if ((F > 0 || no_exclude) && (force_valid || !c.chance(1, 4))) new_setfreq(ki, ni, force_valid);
}

inline void Exec::new_free(int ki, int ni) {
    CalObj &K = *cals[ki];
    if (!quiet) {
        c.note("vnacal_new_free(k%d.n%d)", ki, ni);
        Call k = mk("vnacal_new_free", XP_EITHER, 0, "valid", O_NEW, ki, ni);
        vnacal_new_t *p = K.news[ni]->p;
        vcall(k, [&] { vnacal_new_free(p); });
    } else vnacal_new_free(K.news[ni]->p);
    K.news.erase(K.news.begin() + ni);
}

inline void Exec::new_setfreq(int ki, int ni, bool force_valid, int replace_mode) {
    CalObj &K = *cals[ki]; NewObj &N = *K.news[ni];
    if (N.F == 0) { excl_zero_freq = true; if (!no_exclude) return; }
    std::vector<double> fv = N.sc.freq;
    const char *why = "valid"; bool ok = true;
    // REPLACING a vector that was already accepted: the same grid again, another grid inside the band (every vector
    // parameter of the scenario's standards has its knots on the band, so it still covers it), or a grid that is valid by
    // itself but that an ACCEPTED standard's vector parameter misses by a clear margin (x10, /10, x1.5; the library's own
    // slack is 1 %) -- the last one must be refused by the range check and must change nothing.
    bool limited = false;
    for (int pi : N.registered) if (K.params[pi].kind == ParamRec::VECTOR) limited = true;
    bool refused_range = false, replaced_inside = false;
    if (N.F > 0 && N.freq_set) {
        int mode = replace_mode >= 0 ? replace_mode : c.weighted({3, 3, limited ? 3u : 0u});
        if (mode == 2 && !limited) mode = 1;
        if (mode == 1) {
            double lo = N.sc.freq.front() * 1.002, hi = N.sc.freq.back() * 0.998, f0 = N.sc.freq.front(), f1 = N.sc.freq.back();
            if (N.F >= 2 && hi > lo) { for (auto &x : fv) x = lo + (hi - lo) * (x - f0) / (f1 - f0); replaced_inside = true; why = "replacement-inside-band"; }
            force_valid = true;      // (one frequency: the same point again -- anything else would lean on the library's internal slack)
        } else if (mode == 2) {
            static const double factor[] = {10.0, 0.1, 1.5};
            double k2 = factor[c.draw(3)];
            for (auto &x : fv) x *= k2;
            refused_range = true; why = "replacement-misses-accepted-parameter"; force_valid = true;
        } else if (replace_mode >= 0) force_valid = true;
    }
    if (N.F > 0 && !force_valid && c.chance(1, 6)) {
        switch (c.draw(3)) {
        case 0: fv[c.draw(fv.size())] = -1e6; why = "negative-frequency"; ok = false; break;
        case 1: if (N.F >= 2) { std::swap(fv[0], fv[N.F - 1]); why = "not-ascending"; ok = false; } break;
        default: if (N.F >= 2) { size_t j = 1 + c.draw(N.F - 1); fv[j] = fv[j - 1]; why = "not-ascending"; ok = false; } break;
        }
    }
    auto fb = std::make_shared<Buf<double>>(fv.size()); for (size_t j = 0; j < fv.size(); j++) (*fb)[j] = fv[j];
    c.note("vnacal_new_set_frequency_vector(k%d.n%d, [%d] %g..%g)%s", ki, ni, N.F, fv.empty() ? 0.0 : fv.front(), fv.empty() ? 0.0 : fv.back(), ok ? "" : "  [invalid]");
    // A valid grid is refused exactly when a parameter of an ACCEPTED standard misses the band (here by a factor >= 40; the
    // library's own slack is ~1 %).  Parameters that only REJECTED standards referenced must not matter ("a rejected
    // standard adds nothing"): then the call must succeed -- XP_MUST, the clause itself.
    Expect ex = !ok ? XP_FAIL : (N.noncover || refused_range) ? XP_FAIL : (N.F > 0 ? XP_MUST : XP_OK);
    if (ok && N.noncover) why = "accepted-parameter-misses-band";
    if (N.adds_attempted > 0) c.label("setfreq-after-adds");
    if (N.freq_set && ok) c.label(refused_range ? "setfreq-replace:refused-range" : "setfreq-replace:accepted");
    else if (N.freq_set) c.label("setfreq-replace:refused-invalid-vector");
    Call k = mk("vnacal_new_set_frequency_vector", ex, C_USAGE, why, O_NEW, ki, ni);
    // the vector may be the library's own: the frequency vector of a calibration of the same vnacal_t with exactly these values
    const double *farg = fb->p;
    if (ok && alias_turn()) { int end = vnacal_get_calibration_end(K.p); for (int ci = 0; ci < end && farg == fb->p; ci++) if (vnacal_get_name(K.p, ci) && vnacal_get_frequencies(K.p, ci) == N.F) { const double *cv = vnacal_get_frequency_vector(K.p, ci); bool same = cv != nullptr; for (int f = 0; same && f < N.F; f++) if (!same_bits(cv[f], fv[f])) same = false; if (same) { farg = cv; c.label("alias:vnacal_new_set_frequency_vector"); } } }
    int rc = icall(k, [&] { return vnacal_new_set_frequency_vector(N.p, farg); });
    if (rc == 0) {
        N.freq_set = true; N.cur_freq = fv;
        if (replaced_inside && fv != N.sc.freq) N.pristine = false;      // vector standards are now interpolated between their knots: no accuracy claims
        N.hist.push_back([fb](vnacal_new_t *p, const std::function<int(int)> &) { return vnacal_new_set_frequency_vector(p, fb->p); }); N.hist_desc.push_back("set_frequency_vector");
    } else N.refused++;
}

inline void Exec::new_knobs(int ki, int ni) {
    CalObj &K = *cals[ki]; NewObj &N = *K.news[ni];
    int w = c.weighted({2, 2, 2, 2, 2});
    int rc = -1; HistOp op; const char *desc = "";
    switch (w) {
    case 0: {
        dcx z = gz0();
        c.note("vnacal_new_set_z0(k%d.n%d, %g%+gi)", ki, ni, re_(z), im_(z));
        Call k = mk("vnacal_new_set_z0", XP_OK, C_USAGE, "valid", O_NEW, ki, ni);
        rc = icall(k, [&] { return vnacal_new_set_z0(N.p, z); });
        op = [z](vnacal_new_t *p, const std::function<int(int)> &) { return vnacal_new_set_z0(p, z); }; desc = "set_z0";
        break;
    }
    case 1: case 2: {
        static const double tv[] = {1e-6, 1e-9, 1e-3, 0.0, 1e-12, -1.0, -1e-9};
        double t = tv[c.draw(sizeof tv / sizeof *tv)]; bool ok = t >= 0, et = w == 1;
        c.note("vnacal_new_set_%s_tolerance(k%d.n%d, %g)%s", et ? "et" : "p", ki, ni, t, ok ? "" : "  [invalid]");
        Call k = mk(et ? "vnacal_new_set_et_tolerance" : "vnacal_new_set_p_tolerance", ok ? XP_OK : XP_FAIL, C_USAGE, ok ? "valid" : "negative-tolerance", O_NEW, ki, ni);
        rc = et ? icall(k, [&] { return vnacal_new_set_et_tolerance(N.p, t); }) : icall(k, [&] { return vnacal_new_set_p_tolerance(N.p, t); });
        op = [t, et](vnacal_new_t *p, const std::function<int(int)> &) { return et ? vnacal_new_set_et_tolerance(p, t) : vnacal_new_set_p_tolerance(p, t); }; desc = "set_tolerance";
        break;
    }
    case 3: {
        static const int iv[] = {30, 1, 2, 5, 100, 1000, 0, -1};
        int it = iv[c.draw(sizeof iv / sizeof *iv)]; bool ok = it >= 1;
        c.note("vnacal_new_set_iteration_limit(k%d.n%d, %d)%s", ki, ni, it, ok ? "" : "  [invalid]");
        Call k = mk("vnacal_new_set_iteration_limit", ok ? XP_OK : XP_FAIL, C_USAGE, ok ? "valid" : "bad-count", O_NEW, ki, ni);
        rc = icall(k, [&] { return vnacal_new_set_iteration_limit(N.p, it); });
        op = [it](vnacal_new_t *p, const std::function<int(int)> &) { return vnacal_new_set_iteration_limit(p, it); }; desc = "set_iteration_limit";
        break;
    }
    default: {
        static const double sv[] = {0.001, 0.05, 1.0, 1e-9, 0.0, -0.5, 1.5};
        double s = sv[c.draw(sizeof sv / sizeof *sv)]; bool ok = s > 0 && s <= 1;
        c.note("vnacal_new_set_pvalue_limit(k%d.n%d, %g)%s", ki, ni, s, ok ? "" : "  [invalid]");
        Call k = mk("vnacal_new_set_pvalue_limit", ok ? XP_OK : XP_FAIL, C_USAGE, ok ? "valid" : "out-of-range", O_NEW, ki, ni);
        rc = icall(k, [&] { return vnacal_new_set_pvalue_limit(N.p, s); });
        op = [s](vnacal_new_t *p, const std::function<int(int)> &) { return vnacal_new_set_pvalue_limit(p, s); }; desc = "set_pvalue_limit";
        break;
    }
    }
    if (rc == 0) { N.hist.push_back(op); N.hist_desc.push_back(desc); } else N.refused++;
}

inline void Exec::new_merror(int ki, int ni) {
    CalObj &K = *cals[ki]; NewObj &N = *K.news[ni];
    if (N.F == 0) { excl_zero_freq = true; return; }
    int how = c.weighted({4, 3, 3, 2, 1, 1, 1, 1, 1, 1});
    int n = 1; bool fnull = true, nfnull = false, trnull = c.boolean();
    Expect ex = XP_OK; const char *why = "valid";
    std::vector<double> fv, nf, tr;
    double lo = N.sc.freq.front(), hi = N.sc.freq.back();
    switch (how) {
    case 0: n = 1; fnull = true; break;                                   // one value for all frequencies
    case 1: n = N.F; fnull = true; break;                                 // the calibration's own grid
    case 2: n = (int)c.range(2, 5); fnull = false; break;                 // own grid spanning the calibration range
    case 3: n = 1; nfnull = true; trnull = true; why = "reset"; break;    // both NULL: disable
    case 4: n = c.boolean() ? 0 : -1; ex = XP_FAIL; why = "bad-count"; break;
    case 5: n = (int)c.range(1, 3); fnull = n == 1; ex = XP_FAIL; why = "nonpositive-sigma"; break;
    case 6: n = 1; nfnull = true; trnull = false; ex = XP_FAIL; why = "noise-null-gain-given"; break;
    case 7: n = (int)c.range(2, 4); fnull = false; ex = XP_FAIL; why = "range-not-covered"; break;
    case 8: n = (int)c.range(2, 4); fnull = false; ex = XP_FAIL; why = "not-ascending"; break;
    default: n = (int)c.range(3, 5); fnull = false; ex = XP_EITHER; why = "close-spacing"; break;
    }
    if (how == 1 && n == 1) how = 0;
    for (int j = 0; j < std::max(n, 0); j++) {
        fv.push_back(n == 1 ? lo : lo * 0.9 + (hi * 1.1 - lo * 0.9) * j / (n - 1));
        nf.push_back(1e-6 * (double)c.range(1, 1000)); tr.push_back(1e-5 * (double)c.range(0, 1000));
    }
    if (how == 5) { if (c.boolean() || trnull) nf[c.draw(nf.size())] = c.boolean() ? 0.0 : -1e-6; else tr[c.draw(tr.size())] = -1e-6; }
    if (how == 7) for (auto &x : fv) x = hi * 2 + (x - lo) + 1e6;          // starts above the calibration's highest frequency
    if (how == 8) std::swap(fv[0], fv[n - 1]);
    if (how == 9) fv[1] = fv[0] + 1e-5;
    // documented preconditions that make an otherwise valid call fail
    if (ex != XP_FAIL && !N.freq_set && !(nfnull && trnull)) { ex = XP_FAIL; why = "before-set-frequency-vector"; }
    // T16/U16: "the complete s-parameter matrix for each calibration standard must be given"
    if (ex == XP_OK && !(nfnull && trnull) && vm::is_16(N.ty) && N.partial_s) { ex = XP_FAIL; why = "t16-partial-s"; }
    auto fb = std::make_shared<Buf<double>>(fv.size()), nb = std::make_shared<Buf<double>>(nf.size()), tb = std::make_shared<Buf<double>>(tr.size());
    for (size_t j = 0; j < fv.size(); j++) { (*fb)[j] = fv[j]; (*nb)[j] = nf[j]; (*tb)[j] = tr[j]; }
    c.note("vnacal_new_set_m_error(k%d.n%d, %s, n=%d, nf %s, tr %s)%s %s", ki, ni, fnull ? "NULL" : "grid", n, nfnull ? "NULL" : "given", trnull ? "NULL" : "given", ex == XP_FAIL ? "  [invalid]" : "", why);
    Call k = mk("vnacal_new_set_m_error", ex, ex == XP_EITHER ? (C_USAGE | C_SYSTEM) : C_USAGE, why, O_NEW, ki, ni);
    int rc = icall(k, [&] { return vnacal_new_set_m_error(N.p, fnull ? nullptr : fb->p, n, nfnull ? nullptr : nb->p, trnull ? nullptr : tb->p); });
    if (rc == 0) {
        N.m_error = !(nfnull && trnull);
        if (N.m_error) N.pristine = false;
        N.hist.push_back([=](vnacal_new_t *p, const std::function<int(int)> &) { return vnacal_new_set_m_error(p, fnull ? nullptr : fb->p, n, nfnull ? nullptr : nb->p, trnull ? nullptr : tb->p); });
        N.hist_desc.push_back("set_m_error");
    } else N.refused++;
}

// parameter (pool index) for one S cell of a scenario standard
inline int Exec::cell_param(int ki, NewObj &N, cs::SCell &cell) {
    if (cell.kind <= cs::SCell::SHORT) return (int)cell.kind;
    if (cell.kind == cs::SCell::SCALAR) return make_scalar(ki, mkc((double)cell.v[0].real(), (double)cell.v[0].imag()));
    std::vector<dcx> g; for (auto &x : cell.v) g.push_back(mkc((double)x.real(), (double)x.imag()));
    return make_vector(ki, N.sc.freq, g);
}

inline void Exec::new_add(int ki, int ni, bool allow_bad, int force_twist) {
    CalObj &K = *cals[ki]; NewObj &N = *K.news[ni];
    if (N.F == 0) { excl_zero_freq = true; return; }
    cs::Scenario &sc = N.sc;
    int P = sc.P;
    // the standard: next of the baseline set, or an extra one
    cs::Standard st; bool from_todo = false;
    if (forced_std) st = *forced_std;
    else if (force_twist == 9 && P >= 2) { cs::Gen g(c, sc); auto pp = g.perm_ports(2); st = g.dbl(pp[0], pp[1], cs::rnd_disk(c, 0, 1.0L), cs::rnd_disk(c, 0, 1.0L), false, 0); }
    else if (!N.todo.empty() && !c.chance(1, 5)) { st = N.todo.back(); from_todo = true; }
    else {
        cs::Gen g(c, sc);
        switch (c.weighted({3, P >= 2 ? 2u : 0u, P >= 2 ? 3u : 0u, 2})) {
        case 0: st = g.single((int)c.draw(P), cs::rnd_disk(c, 0, 1.0L)); break;
        case 1: { auto pp = g.perm_ports(2); st = g.dbl(pp[0], pp[1], cs::rnd_disk(c, 0, 1.0L), cs::rnd_disk(c, 0, 1.0L)); break; }
        case 2: { auto pp = g.perm_ports(2); st = g.through(pp[0], pp[1]); break; }
        default: { int kk = 1 + (int)c.draw(P); st = g.full_random(g.perm_ports(kk)); break; }
        }
    }
    auto a = std::make_shared<AddArgs>();
    a->entry = st.entry; a->ab = c.boolean();
    // parameters first (observed calls of their own)
    for (auto &cell : st.cells) { int pi = cell_param(ki, N, cell); if (pi < 0) return; a->pidx.push_back(pi); }
    a->raw.assign(a->pidx.size(), 0);
    for (int p : st.ports) a->map.push_back(p + 1);
    a->null_map = st.null_map; a->s_rows = a->s_cols = st.k;
    // measurement matrices of the scenario's error box
    cs::MatVec MA, MB;
    { sc.ab = a->ab; RunnerGuard rg(c, sc, nullptr, nullptr); rg.run.measure(st, st.Sfull, MA, MB); sc.ab = false; }
    a->br = MB.rows; a->bc = MB.cols; a->ar = MA.rows; a->ac = MA.cols;
    // ---- optional invalid twist
    Expect ex = XP_OK; const char *why = "valid"; unsigned cz = C_USAGE;
    bool zero_a = false, noncover_cell = false;
    int hist_sub_j = -1, hist_sub_q = -1;      // clone history: the clone uses its own (undeleted) twin of a deleted handle
    if (force_twist >= 0 || (allow_bad && c.chance(1, 4))) {
        int nh = (int)a->pidx.size();
        int tw = force_twist >= 0 ? force_twist : c.weighted({2, 2, a->ab ? 2u : 0u, 2, st.k >= 2 ? 1u : 0u, nh > 0 ? 3u : 0u, st.entry == cs::Standard::MAPPED ? 2u : 0u, (st.entry == cs::Standard::MAPPED && st.k < P) ? 2u : 0u, a->ab ? 2u : 0u, nh > 0 ? 2u : 0u});
        if (tw == 9 && nh == 0) tw = 3;
        switch (tw) {
        case 0: a->br = c.weighted({2, 1, 1}) == 0 ? P + 1 : (c.boolean() ? 0 : -1); ex = XP_FAIL; why = "bad-matrix-dimensions"; break;
        case 1: a->bc = c.weighted({2, 1, 1}) == 0 ? P + 1 : (c.boolean() ? 0 : -1); ex = XP_FAIL; why = "bad-matrix-dimensions"; if (a->ab) { a->ac = a->bc; if (!vm::is_colsys(sc.type)) a->ar = a->bc; } break;
        case 2: if (c.boolean()) a->ar += 1; else a->ac = std::max(0, a->ac - 1); ex = XP_FAIL; why = "bad-a-dimensions"; break;
        case 3: { size_t j = c.draw(a->map.size()); a->map[j] = c.boolean() ? 0 : P + 1 + (int)c.draw(2); a->null_map = false; ex = XP_FAIL; why = "bad-port"; break; }
        case 4: a->map[1] = a->map[0]; a->null_map = false; ex = XP_EITHER; why = "duplicate-port"; break;     // not spelled out in vnacal_new(3)
        case 5: {
            size_t j = c.draw((size_t)nh);
            a->pidx[j] = -1; a->raw[j] = bad_handle(K, why); ex = XP_FAIL;
            // "a copy of the parameter will continue to exist internally until the last reference has been released":
            // a deleted handle this vnacal_new_t still references is found in its own table -- either outcome
            for (size_t q = 0; q < K.params.size(); q++) if (K.params[q].deleted && K.params[q].h == a->raw[j] && N.registered.count((int)q)) { ex = XP_EITHER; why = "deleted-handle-still-referenced"; hist_sub_j = (int)j; hist_sub_q = (int)q; }
            // (a deleted handle that only a REJECTED standard referenced is refused: the rejection rolls its registrations back)
            break;
        }
        case 6: {
            int bad = c.weighted({2, 1, 2}) == 0 ? 0 : (c.boolean() ? -1 : P + 1);
            if (c.boolean()) a->s_rows = bad; else a->s_cols = bad;
            size_t need = (a->s_rows > 0 && a->s_cols > 0) ? (size_t)a->s_rows * a->s_cols : 0;
            a->pidx.assign(need, 0); a->raw.assign(need, 0);
            int ports = std::max(std::max(a->s_rows, a->s_cols), 0);
            a->map.clear(); for (int q = 0; q < ports; q++) a->map.push_back(std::min(q + 1, P)); a->null_map = false;
            ex = XP_FAIL; why = "bad-s-dimensions"; break;
        }
        case 7: a->null_map = true; ex = XP_FAIL; why = "null-port-map"; break;
        case 9: {
            // cell j0 becomes a vector parameter whose grid misses the calibration band by a factor >= 40 (1..3 Hz, or 10..30 THz).
            // With the frequency vector set the standard is refused (the parameter cannot be evaluated in the band); before it is
            // set the standard is accepted and the later vnacal_new_set_frequency_vector must fail.  Optionally a LATER cell gets
            // an invalid handle: the standard is rejected after the vector parameter was looked up, and must leave no trace.
            size_t j0 = nh >= 2 ? c.draw((size_t)nh - 1) : 0;
            bool below = c.boolean(); int n = (int)c.range(1, 3);
            std::vector<double> fv; std::vector<dcx> gv;
            for (int q = 0; q < n; q++) { fv.push_back(below ? 1.0 + q : 1e13 * (1 + q)); gv.push_back(gval()); }
            int pv = make_vector(ki, fv, gv);
            if (pv < 0) return;
            a->pidx[j0] = pv; noncover_cell = true;
            if (N.freq_set) { ex = XP_FAIL; why = "vector-misses-band"; } else { ex = XP_OK; why = "noncovering-vector-before-setfreq"; }
            if (nh >= 2 && (force_twist == 9 || c.boolean())) {
                size_t j1 = j0 + 1 + c.draw((size_t)nh - 1 - j0);
                const char *w2 = "";
                a->pidx[j1] = -1; a->raw[j1] = bad_handle(K, w2); ex = XP_FAIL; why = "noncovering-vector-then-bad-handle";
                for (size_t q = 0; q < K.params.size(); q++) if (K.params[q].deleted && K.params[q].h == a->raw[j1] && N.registered.count((int)q)) { ex = XP_EITHER; why = "deleted-handle-still-referenced"; hist_sub_j = (int)j1; hist_sub_q = (int)q; }
                if (ex == XP_FAIL) c.label("rejected-standard-with-noncovering-vector");
            }
            break;
        }
        default: zero_a = true; ex = XP_FAIL; cz = C_MATH; why = "singular-a"; break;     // vnaerr(3): "'a' matrix is singular" is a MATH error
        }
    }
    // T16/U16 with error modelling: "the complete s-parameter matrix for each calibration standard must be given"
    bool full_s = (int)st.ports.size() == P;
    if (ex == XP_OK && vm::is_16(sc.type) && N.m_error && !full_s) { ex = XP_EITHER; why = "t16-partial-s-with-m-error"; }
    // exact-size buffers with the DECLARED dimensions
    a->B = std::make_shared<PMat>(a->br, a->bc, N.F); a->B->fill(MB);
    if (a->ab) { a->A = std::make_shared<PMat>(a->ar, a->ac, N.F); a->A->fill(MA); if (a->ar != MA.rows || a->ac != MA.cols) for (auto &cell : a->A->cells) for (size_t j = 0; j < cell.n; j++) if (re_(cell[j]) == 0 && im_(cell[j]) == 0) cell[j] = mkc(1, 0); }
    if (zero_a && a->A) for (auto &cell : a->A->cells) for (size_t j = 0; j < cell.n; j++) cell[j] = mkc(0, 0);
    std::vector<int> h; for (size_t j = 0; j < a->pidx.size(); j++) h.push_back(a->pidx[j] >= 0 ? K.params[a->pidx[j]].h : a->raw[j]);
    const char *fn = add_fn_name(a->entry, a->ab);
    c.note("%s(k%d.n%d, %s; m %dx%d%s)%s %s", fn, ki, ni, st.describe().c_str(), a->br, a->bc, a->ab ? (" a " + std::to_string(a->ar) + "x" + std::to_string(a->ac)).c_str() : "", ex == XP_FAIL ? "  [invalid]" : "", why);
    Call k = mk(fn, ex, ex == XP_FAIL ? cz : (C_USAGE | C_MATH), why, O_NEW, ki, ni);
    N.adds_attempted++;
    int rc = icall(k, [&] { return do_add(N.p, *a, h); });
    if (rc == 0) {
        if (from_todo) N.todo.pop_back();
        if (noncover_cell) N.noncover = true;
        if (ex == XP_OK && !noncover_cell) sc.stds.push_back(st); else N.pristine = false;     // accepted although not known valid (or not the scenario's standard): no claims about solves any more
        if (!full_s) N.partial_s = true;
        for (int pi : a->pidx) for (int q = pi; q >= 0; q = K.params[q].other) N.registered.insert(q);     // a correlated parameter registers its correlate too
        std::vector<int> pidx = a->pidx, raw = a->raw;
        if (hist_sub_j >= 0) pidx[hist_sub_j] = hist_sub_q;
        N.hist.push_back([a, pidx, raw](vnacal_new_t *p, const std::function<int(int)> &map) {
            std::vector<int> hh; for (size_t j = 0; j < pidx.size(); j++) hh.push_back(pidx[j] >= 0 ? map(pidx[j]) : raw[j]);
            return do_add(p, *a, hh);
        });
        N.hist_desc.push_back(std::string(fn) + " " + st.describe());
    } else N.refused++;
}

// a reflect standard whose reflection coefficient is an unknown (or correlated) parameter
inline void Exec::new_add_unknown(int ki, int ni, int reuse) {
    CalObj &K = *cals[ki]; NewObj &N = *K.news[ni];
    if (N.F == 0) { excl_zero_freq = true; return; }
    cs::Scenario &sc = N.sc;
    cs::Gen g(c, sc);
    int port = (int)c.draw(std::min(sc.r, sc.c));
    vm::C gamma = cs::rnd_disk(c, 0.5L, 1.0L);
    // the same unknown / correlated handle may serve several vnacal_new_t of the vnacal_t (each solve writes it back)
    if (reuse < 0 && c.chance(1, 3)) {
        std::vector<int> cand;
        for (size_t q = 0; q < K.params.size(); q++) if (!K.params[q].deleted && K.params[q].has_truth && !N.registered.count((int)q)) cand.push_back((int)q);
        if (!cand.empty()) reuse = cand[c.draw(cand.size())];
    }
    if (reuse >= 0) { gamma = K.params[reuse].truth; c.label("unknown-handle-shared-between-vnacal_new"); }
    bool dbl = sc.P >= 2 && c.chance(1, 3);
    cs::Standard st;
    if (dbl) { int q = (port + 1 + (int)c.draw(sc.P - 1)) % sc.P; st = g.dbl(port, q, gamma, cs::rnd_disk(c, 0, 1.0L), true, 0); }
    else { st = g.single(port, gamma, true); st.entry = cs::Standard::SINGLE; }
    // cell 0 becomes the unknown: guess = truth * (1 + delta)
    st.cells[0].kind = cs::SCell::SCALAR; st.cells[0].v.assign(sc.F, gamma);
    g.finish(st);
    bool corr = false;
    int ui = reuse;
    if (reuse >= 0) corr = K.params[reuse].kind == ParamRec::CORRELATED;
    else {
        vm::C guess = gamma * (vm::C(1, 0) + cs::rnd_disk(c, 0, 0.1L));
        int gi = make_scalar(ki, mkc((double)guess.real(), (double)guess.imag()));
        if (gi < 0) return;
        corr = c.chance(1, 3);
        double sigma = 0.01;
        Buf<double> sb(1); sb[0] = sigma;
        c.note("vnacal_make_%s_parameter(k%d, guess %d)", corr ? "correlated" : "unknown", ki, K.params[gi].h);
        Call k = mk(corr ? "vnacal_make_correlated_parameter" : "vnacal_make_unknown_parameter", XP_OK, C_USAGE, "valid", O_CAL, ki);
        int gh = K.params[gi].h;
        int nh = corr ? icall(k, [&] { return vnacal_make_correlated_parameter(K.p, gh, nullptr, 1, sb.p); }) : icall(k, [&] { return vnacal_make_unknown_parameter(K.p, gh); });
        if (nh < 0) return;
        ParamRec q; q.kind = corr ? ParamRec::CORRELATED : ParamRec::UNKNOWN; q.h = nh; q.other = gi; q.sfv_null = true; q.sfv = {1e6}; q.sv = {sigma};
        q.has_truth = true; q.truth = gamma;
        K.params.push_back(q); K.max_h = std::max(K.max_h, nh);
        ui = (int)K.params.size() - 1;
        check_param_index(ki, ui);
    }
    auto a = std::make_shared<AddArgs>();
    a->entry = st.entry; a->ab = c.boolean();
    a->pidx.push_back(ui);
    if (dbl) { int pi = cell_param(ki, N, st.cells[1]); if (pi < 0) return; a->pidx.push_back(pi); }
    a->raw.assign(a->pidx.size(), 0);
    for (int p : st.ports) a->map.push_back(p + 1);
    a->s_rows = a->s_cols = st.k;
    cs::MatVec MA, MB;
    { sc.ab = a->ab; RunnerGuard rg(c, sc, nullptr, nullptr); rg.run.measure(st, st.Sfull, MA, MB); sc.ab = false; }
    a->br = MB.rows; a->bc = MB.cols; a->ar = MA.rows; a->ac = MA.cols;
    Expect ex = XP_OK; const char *why = "valid-with-unknown";
    int hist_sub_q = -1;
    if (dbl && c.chance(1, 4)) {
        // the standard is rejected for its SECOND cell after the new unknown of the first cell was looked up: the rejection
        // must leave no trace of the unknown in the vnacal_new_t (the clone history judges)
        a->pidx[1] = -1; a->raw[1] = bad_handle(K, why); ex = XP_FAIL;
        for (size_t q = 0; q < K.params.size(); q++) if (K.params[q].deleted && K.params[q].h == a->raw[1] && N.registered.count((int)q)) { ex = XP_EITHER; why = "deleted-handle-still-referenced"; hist_sub_q = (int)q; }
    }
    bool full_s = (int)st.ports.size() == sc.P;
    if (ex == XP_OK && vm::is_16(sc.type) && N.m_error && !full_s) { ex = XP_EITHER; why = "t16-partial-s-with-m-error"; }
    a->B = std::make_shared<PMat>(a->br, a->bc, N.F); a->B->fill(MB);
    if (a->ab) { a->A = std::make_shared<PMat>(a->ar, a->ac, N.F); a->A->fill(MA); }
    std::vector<int> h; for (size_t j = 0; j < a->pidx.size(); j++) h.push_back(a->pidx[j] >= 0 ? K.params[a->pidx[j]].h : a->raw[j]);
    const char *fn = add_fn_name(a->entry, a->ab);
    c.note("%s(k%d.n%d, %s, s11 = %s parameter %d)%s", fn, ki, ni, st.describe().c_str(), corr ? "correlated" : "unknown", K.params[ui].h, ex == XP_FAIL ? "  [invalid]" : "");
    Call k = mk(fn, ex, C_USAGE | C_MATH, why, O_NEW, ki, ni);
    N.adds_attempted++;
    int rc = icall(k, [&] { return do_add(N.p, *a, h); });
    if (rc == 0) {
        N.pristine = false;
        if (!full_s) N.partial_s = true;
        for (int pi : a->pidx) for (int q = pi; q >= 0; q = K.params[q].other) N.registered.insert(q);     // a correlated parameter registers its correlate too
        std::vector<int> pidx = a->pidx, raw = a->raw;
        if (hist_sub_q >= 0) pidx[1] = hist_sub_q;
        N.hist.push_back([a, pidx, raw](vnacal_new_t *p, const std::function<int(int)> &map) {
            std::vector<int> hh; for (size_t j = 0; j < pidx.size(); j++) hh.push_back(pidx[j] >= 0 ? map(pidx[j]) : raw[j]);
            return do_add(p, *a, hh);
        });
        N.hist_desc.push_back(std::string(fn) + " (unknown) " + st.describe());
    } else N.refused++;
}

// a successful solve wrote every unknown / correlated parameter of N back, over N's frequencies
inline void Exec::mark_solved(CalObj &K, NewObj &N) {
    N.solved_freq = N.cur_freq;
    for (int pi : N.registered) if (K.params[pi].kind >= ParamRec::UNKNOWN) { K.params[pi].solved = true; K.params[pi].solved_grid = N.cur_freq; }
}

inline bool Exec::new_solve(int ki, int ni) {
    CalObj &K = *cals[ki]; NewObj &N = *K.news[ni];
    cs::Scenario &sc = N.sc;
    Expect ex = XP_EITHER; const char *why = "gray"; long double kappa = 0;
    bool determining = false;
    if (!N.freq_set) why = "no-frequency-vector";
    else if (N.pristine && !N.m_error) {
        auto eq = cs::count_equations(sc, sc.stds.size());
        int U = cs::unknowns_per_system(sc);
        bool too_few = false; for (int e : eq) if (e < U) too_few = true;
        if (too_few) why = "too-few-standards";
        else if (N.todo.empty()) {
            determining = cs::leakage_uncovered(sc).empty();
            for (int f = 0; determining && f < sc.F; f++) { vm::Ident id = cs::ident_at(sc, f); if (!id.determining) determining = false; kappa = std::max(kappa, id.kappa); }
            if (determining) { why = "determining"; ex = N.failed_solve ? XP_MUST : XP_OK; }
        }
    }
    c.note("vnacal_new_solve(k%d.n%d)  %zu standards, %s%s", ki, ni, sc.stds.size(), why, ex == XP_MUST ? " (retry after a failed solve: must succeed)" : "");
    Call k = mk("vnacal_new_solve", ex, C_MATH | C_USAGE, why, O_NEW, ki, ni); k.late = true;
    int rc = icall(k, [&] { return vnacal_new_solve(N.p); });
    did_solve = true;
    if (rc != 0) { N.failed_solve = true; return false; }
    N.has_cal = true; N.ever_solved = true; N.solved_freq = N.cur_freq;
    mark_solved(K, N);
    if (!(ex == XP_MUST)) return true;
    // "a failed solve can be retried after adding standards": the calibration must also be the right one
    N.retried = true; did_retry = true;
    Call ka = mk("vnacal_add_calibration", XP_MUST, C_USAGE, "after-retry", O_CAL, ki);
    int ci = icall(ka, [&] { return vnacal_add_calibration(K.p, "retry", N.p); });
    if (ci < 0) return true;
    N.has_cal = false;
    ci = vnacal_find_calibration(K.p, "retry");
    RunnerGuard rg(c, sc, K.p, N.p);
    if (ci >= 0 && rg.run.apply_supported()) {
        std::vector<vm::Mat> dut = cs::gen_dut(c, sc.P, sc.F), out;
        sc.ab = c.boolean();
        int arc = rg.run.apply(ci, dut, out);
        sc.ab = false;
        K.log->clear();
        char b[300];
        snprintf(b, sizeof b, "apply of the calibration solved on retry failed: %s", rg.run.log.text().c_str());
        obs->claim(arc == 0, "C11.retry_apply_failed", b);
        if (arc == 0) {
            long double worst = 0;
            for (int f = 0; f < sc.F; f++) for (int i = 0; i < sc.P; i++) for (int j = 0; j < sc.P; j++) worst = std::max(worst, std::abs(out[f](i, j) - dut[f](i, j)));
            long double bound = 1e5L * APIX_EPS * kappa * 10;
            c.track_max("retry err/(eps*kappa*10)", (double)(worst / (APIX_EPS * kappa * 10)));
            snprintf(b, sizeof b, "after a failed solve and the missing standards the corrected device is off by %.3Lg (bound %.3Lg, kappa %.3Lg)", worst, bound, kappa);
            obs->claim(worst <= bound, "C11.retry_wrong_calibration", b);
        }
    }
    vnacal_delete_calibration(K.p, ci);
    return true;
}

// failed solve -> (refused call) -> missing standards -> solve again
inline void Exec::new_retry_scenario(int ki) {
    CalObj &K = *cals[ki];
    new_alloc(ki, true, true);
    if (K.news.empty()) return;
    int ni = (int)K.news.size() - 1;
    NewObj *N = K.news[ni].get();
    if (!N->freq_set || N->F == 0) return;
    size_t total = N->todo.size();
    size_t first = total > 0 ? c.draw(total) : 0;           // strict subset first
    for (size_t j = 0; j < first && !K.news[ni]->todo.empty(); j++) new_add(ki, ni, false);
    new_solve(ki, ni);
    if (c.boolean()) new_add(ki, ni, true);
    for (int guard = 0; guard < 64 && !K.news[ni]->todo.empty(); guard++) new_add(ki, ni, false);
    new_solve(ki, ni);
}

// a complete small calibration: all baseline standards, solve, add_calibration (so that the calibration
// getters, properties, apply and delete have something to work on)
inline void Exec::quick_calibration(int ki) {
    CalObj &K = *cals[ki];
    new_alloc(ki, true, true);
    if (K.news.empty()) return;
    int ni = (int)K.news.size() - 1;
    if (!K.news[ni]->freq_set) return;
    for (int guard = 0; guard < 64 && !K.news[ni]->todo.empty(); guard++) new_add(ki, ni, false);
    new_solve(ki, ni);
    NewObj &N = *K.news[ni];
    if (!N.has_cal) return;
    std::string name = CAL_NAMES[c.draw(sizeof CAL_NAMES / sizeof *CAL_NAMES)];
    c.note("vnacal_add_calibration(k%d, %s, k%d.n%d)", ki, ascii(name).c_str(), ki, ni);
    Call k = mk("vnacal_add_calibration", XP_OK, C_USAGE, "valid", O_CAL, ki);
    const char *narg = name_arg(K, name, "vnacal_add_calibration");
    int ci = icall(k, [&] { return vnacal_add_calibration(K.p, narg, N.p); });
    if (ci >= 0) { N.has_cal = false; check_cal_index(ki, ci, name, &N); }
}

// One unknown (or correlated) handle solved by two vnacal_new_t of the same vnacal_t, the second over FEWER frequencies
// taken from the first one's grid; then vnacal_get_parameter_value across both ranges: "returns the most recent value
// computed by vnacal_new_solve()", so only the LAST solve's range answers, everything else is the failure value.
inline void Exec::shared_unknown_scenario(int ki) {
    CalObj &K = *cals[ki];
    AllocSpec s1; s1.ty = (int)c.draw(8); s1.r = s1.c = 1; s1.F = (int)c.range(2, 6);
    new_alloc(ki, true, true, &s1);
    if (K.news.empty()) return;
    int n1 = (int)K.news.size() - 1;
    if (!K.news[n1]->freq_set) return;
    std::vector<double> f1 = K.news[n1]->cur_freq;
    for (int guard = 0; guard < 16 && !K.news[n1]->todo.empty(); guard++) new_add(ki, n1, false);
    size_t before = K.params.size();
    new_add_unknown(ki, n1);
    int u = -1;
    for (size_t q = before; q < K.params.size(); q++) if (K.params[q].has_truth) u = (int)q;
    if (u < 0 || !K.news[n1]->registered.count(u)) return;
    if (!new_solve(ki, n1)) return;
    // second object: fewer frequencies, a run of the first grid (3 in 4: its lower end, so that old-only frequencies lie above)
    AllocSpec s2; s2.ty = (int)c.draw(8); s2.r = s2.c = 1; s2.F = (int)c.range(1, s1.F - 1);
    size_t start = c.chance(1, 4) ? c.draw((size_t)(s1.F - s2.F) + 1) : 0;
    s2.freq.assign(f1.begin() + start, f1.begin() + start + s2.F);
    new_alloc(ki, true, true, &s2);
    int n2 = (int)K.news.size() - 1;
    if (!K.news[n2]->freq_set || K.news[n2]->F != s2.F) return;
    for (int guard = 0; guard < 16 && !K.news[n2]->todo.empty(); guard++) new_add(ki, n2, false);
    if (K.params[u].deleted) return;
    new_add_unknown(ki, n2, u);
    if (!K.news[n2]->registered.count(u)) return;
    if (!new_solve(ki, n2)) return;
    c.label("shared-unknown-resolved:smaller-grid");
    const std::vector<double> &f2 = K.news[n2]->cur_freq;
    int h = K.params[u].h;
    auto query = [&](double f, Expect ex, const char *why) {
        c.note("vnacal_get_parameter_value(k%d, %d, %g)  %s", ki, h, f, why);
        Call k = mk("vnacal_get_parameter_value", ex, C_USAGE, why, O_CAL, ki);
        ccall(k, [&] { return vnacal_get_parameter_value(K.p, h, f); });
    };
    query(f2[c.draw(f2.size())], XP_MUST, "solved-unknown:inside-last-range");
    if (f2.size() >= 2) query(0.5 * (f2.front() + f2.back()), XP_MUST, "solved-unknown:inside-last-range");
    // frequencies of the FIRST solve that the last one does not cover (>= 5 % outside; the library's slack is 1 %)
    for (double f : f1) if (f > f2.back() * 1.04 || f < f2.front() * 0.96) { c.label("param-query:old-range-only"); query(f, XP_FAIL, "solved-unknown:old-range-only"); }
    query(f1.back() * 2 + 1e6, XP_FAIL, "solved-unknown:outside-both-ranges");
}

// "a rejected standard adds nothing": the frequency vector is loaded AFTER a standard was rejected that carried a vector
// parameter whose grid misses the band -- vnacal_new_set_frequency_vector must still succeed (XP_MUST in new_setfreq)
inline void Exec::late_setfreq_scenario(int ki) {
    CalObj &K = *cals[ki];
    AllocSpec sp; sp.ty = (int)c.draw(8); sp.r = sp.c = 2; sp.F = (int)c.range(1, 4); sp.defer_freq = true;
    new_alloc(ki, true, true, &sp);
    if (K.news.empty()) return;
    int ni = (int)K.news.size() - 1;
    if (K.news[ni]->freq_set) return;
    size_t some = c.draw(3);
    for (size_t j = 0; j < some && !K.news[ni]->todo.empty(); j++) new_add(ki, ni, false);
    new_add(ki, ni, true, 9);
    if (c.chance(1, 3) && !K.news[ni]->todo.empty()) new_add(ki, ni, false);
    new_setfreq(ki, ni, true);
    if (c.boolean()) { for (int guard = 0; guard < 32 && !K.news[ni]->todo.empty(); guard++) new_add(ki, ni, false); new_solve(ki, ni); }
}

// "a refused setter changes nothing": frequency vector set, all baseline standards (at least one of them described by a
// vector parameter), then the vector is REPLACED -- by a grid the vector parameter misses (refused) and / or by one inside
// the band (accepted) -- and the calibration is solved and stored: its frequency vector must be the last accepted one
// (check_cal_index) and equal to the clone's (C11 clone history).
inline void Exec::replace_freq_scenario(int ki) {
    CalObj &K = *cals[ki];
    AllocSpec sp; sp.ty = (int)c.draw(8); sp.r = sp.c = (int)c.range(1, 2); sp.F = (int)c.range(1, 4);
    new_alloc(ki, true, true, &sp);
    if (K.news.empty()) return;
    int ni = (int)K.news.size() - 1;
    if (!K.news[ni]->freq_set) return;
    bool early = c.boolean();            // replace before or after the bulk of the standards
    auto limited = [&] { for (int pi : K.news[ni]->registered) if (K.params[pi].kind == ParamRec::VECTOR) return true; return false; };
    auto add_vector_standard = [&] {
        NewObj &N = *K.news[ni];
        cs::Gen g(c, N.sc);
        vm::C gamma = cs::rnd_disk(c, 0.3L, 1.0L);
        cs::Standard st = g.single((int)c.draw(std::min(N.sc.r, N.sc.c)), gamma, true);
        st.entry = cs::Standard::SINGLE;
        st.cells[0].kind = cs::SCell::VECTOR; st.cells[0].v.clear();
        for (int f = 0; f < N.sc.F; f++) st.cells[0].v.push_back(gamma * cs::polar(1, 0.05L * f));
        g.finish(st);
        forced_std = &st; new_add(ki, ni, false); forced_std = nullptr;
    };
    if (early) { if (!limited()) add_vector_standard(); }
    else { for (int guard = 0; guard < 32 && !K.news[ni]->todo.empty(); guard++) new_add(ki, ni, false); if (!limited()) add_vector_standard(); }
    if (!limited()) return;
    int how = c.weighted({3, 1, 2});     // refused only / accepted only / refused then accepted
    if (how != 1) new_setfreq(ki, ni, true, 2);
    if (how != 0) new_setfreq(ki, ni, true, 1);
    for (int guard = 0; guard < 32 && !K.news[ni]->todo.empty(); guard++) new_add(ki, ni, false);
    if (!new_solve(ki, ni)) return;
    NewObj &N = *K.news[ni];
    if (!N.has_cal) return;
    std::string name = CAL_NAMES[c.draw(sizeof CAL_NAMES / sizeof *CAL_NAMES)];
    c.note("vnacal_add_calibration(k%d, %s, k%d.n%d)", ki, ascii(name).c_str(), ki, ni);
    Call k = mk("vnacal_add_calibration", XP_OK, C_USAGE, "valid", O_CAL, ki);
    const char *narg = name_arg(K, name, "vnacal_add_calibration");
    int ci = icall(k, [&] { return vnacal_add_calibration(K.p, narg, N.p); });
    if (ci >= 0) { N.has_cal = false; check_cal_index(ki, ci, name, &N); }
}

inline void Exec::op_new() {
    int ki = need_cal();
    if (ki < 0) return;
    int w = c.weighted({30, 3, 2, 2, 5, 4, 4, 8, 3, 2, 2, 2});
    if (w == 11) { replace_freq_scenario(ki); return; }
    if (w == 1) { new_alloc(ki); return; }
    if (w == 8) { new_retry_scenario(ki); return; }
    if (w == 9) { shared_unknown_scenario(ki); return; }
    if (w == 10) { late_setfreq_scenario(ki); return; }
    int ni = need_new(ki);
    if (ni < 0) return;
    switch (w) {
    case 0: new_add(ki, ni, true); break;
    case 2: new_free(ki, ni); break;
    case 3: new_setfreq(ki, ni); break;
    case 4: new_knobs(ki, ni); break;
    case 5: new_merror(ki, ni); break;
    case 6: new_add_unknown(ki, ni); break;
    default: new_solve(ki, ni); break;
    }
}

} // namespace apix
