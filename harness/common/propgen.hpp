// propgen.hpp -- generators for property keys / values / descriptors, the
// descriptor printer (random legal whitespace, two independent key quoters)
// and the API-based tree reader used by C13, C14, C16, C07.
#pragma once
#include "pbt.hpp"
#include "vna.hpp"
#include "docmodel.hpp"

// Read the observable tree through the public API only (type/count/keys/get/get_subtree).
static inline doc::NodeP read_tree(const vnaproperty_t *node, std::string &why, int depth = 0) {
    using namespace doc;
    if (node == nullptr) return nullptr;
    if (depth > 64) { why = "tree deeper than 64"; return nullptr; }
    int t = vnaproperty_type(node, ".");
    if (t == 's') {
        const char *s = vnaproperty_get(node, ".");
        if (!s) { why = "get(.) of a scalar returned NULL"; return nullptr; }
        return Node::scalar(s);
    }
    if (t == 'm') {
        NodeP n = Node::mk(Node::MAP);
        const char **keys = vnaproperty_keys(node, "{}");
        if (!keys) { why = "keys({}) of a map returned NULL"; return nullptr; }
        int cnt = vnaproperty_count(node, ".");
        int i = 0;
        for (; keys[i]; i++) {
            char *q = vnaproperty_quote_key(keys[i]);
            if (!q) { why = "quote_key returned NULL"; free((void *)keys); return nullptr; }
            errno = 0;
            vnaproperty_t *ch = vnaproperty_get_subtree(node, "%s", q);
            int e = errno;
            if (!ch && e != 0) { why = std::string("get_subtree(") + esc(q) + ") for existing key " + esc(keys[i]) + " failed: " + strerror(e); free(q); free((void *)keys); return nullptr; }
            free(q);
            n->map.push_back({keys[i], read_tree(ch, why, depth + 1)});
            if (!why.empty()) { free((void *)keys); return nullptr; }
        }
        free((void *)keys);
        if (cnt != i) { why = "count(.) = " + std::to_string(cnt) + " but keys() lists " + std::to_string(i); return nullptr; }
        return n;
    }
    if (t == 'l') {
        NodeP n = Node::mk(Node::LIST);
        int cnt = vnaproperty_count(node, "[]");
        if (cnt < 0) { why = "count([]) of a list failed"; return nullptr; }
        for (int i = 0; i < cnt; i++) {
            errno = 0;
            vnaproperty_t *ch = vnaproperty_get_subtree(node, "[%d]", i);
            if (!ch && errno != 0) { why = "get_subtree([" + std::to_string(i) + "]) failed"; return nullptr; }
            n->list.push_back(read_tree(ch, why, depth + 1));
            if (!why.empty()) return nullptr;
        }
        return n;
    }
    why = "type(.) of a non-null node returned " + std::to_string(t);
    return nullptr;
}

struct PropGen {
    pbt::Ctx &c;
    bool yamlish = false;      // C14: draw from the YAML-look-alike pools too
    explicit PropGen(pbt::Ctx &c_) : c(c_) {}

    static bool idchar1(unsigned char ch) { return isalpha(ch) || ch >= 0x80 || ch == '_'; }
    static bool idchar(unsigned char ch) { return isalpha(ch) || isdigit(ch) || ch >= 0x80 || ch == '_' || ch == '-'; }
    static bool needs_quote(const std::string &k) {
        if (k.empty()) return true;
        if (!idchar1((unsigned char)k[0])) return true;
        for (size_t i = 1; i < k.size(); i++) if (!idchar((unsigned char)k[i]) && !(k[i] == ' ' && i + 1 < k.size() && k[i + 1] != ' ')) return true;
        return k.back() == ' ';
    }
    // harness' own quoter (independent of vnaproperty_quote_key): backslash every byte
    // that is not certainly an identifier byte; interior single spaces optionally left bare
    std::string own_quote(const std::string &k) {
        std::string o;
        for (size_t i = 0; i < k.size(); i++) {
            unsigned char ch = (unsigned char)k[i];
            bool plain = i == 0 ? idchar1(ch) : idchar(ch);
            if (!plain && ch == ' ' && i > 0 && i + 1 < k.size() && k[i + 1] != ' ' && k[i - 1] != ' ' && c.boolean()) plain = true;
            if (!plain) o += '\\';
            o += (char)ch;
        }
        return o;
    }

    // UTF-8 encode a code point
    static void utf8(std::string &o, uint32_t cp) {
        if (cp < 0x80) o += (char)cp;
        else if (cp < 0x800) { o += (char)(0xC0 | (cp >> 6)); o += (char)(0x80 | (cp & 0x3F)); }
        else if (cp < 0x10000) { o += (char)(0xE0 | (cp >> 12)); o += (char)(0x80 | ((cp >> 6) & 0x3F)); o += (char)(0x80 | (cp & 0x3F)); }
        else { o += (char)(0xF0 | (cp >> 18)); o += (char)(0x80 | ((cp >> 12) & 0x3F)); o += (char)(0x80 | ((cp >> 6) & 0x3F)); o += (char)(0x80 | (cp & 0x3F)); }
    }
    uint32_t gen_cp(bool allow_ctrl) {
        switch (c.weighted({8, 4, 2, 2, 1, 1, allow_ctrl ? 1u : 0u})) {
        case 0: return 'a' + (uint32_t)c.draw(26);
        case 1: { static const char p[] = " .=#[]{}+-_\\:'\"|>%@&*!?,~/0123456789"; return (uint32_t)p[c.draw(sizeof p - 1)]; }
        case 2: return 0xA0 + (uint32_t)c.draw(0x700 - 0xA0);                 // 2-byte
        case 3: { static const uint32_t s[] = {0x85, 0x2028, 0x2029, 0xFEFF, 0x20AC, 0x4E2D, 0xFFFD}; return s[c.draw(7)]; }
        case 4: return 0x10000 + (uint32_t)c.draw(0x10000);                   // astral
        case 5: return (uint32_t)(c.boolean() ? '\n' : '\t');
        default: { uint32_t v = 1 + (uint32_t)c.draw(0x1f); return v; }       // C0 controls (not NUL)
        }
    }
    std::string gen_string(size_t maxlen, bool allow_ctrl) {
        std::string o;
        size_t n = (size_t)c.range(0, (int64_t)maxlen);
        for (size_t i = 0; i < n; i++) utf8(o, gen_cp(allow_ctrl));
        return o;
    }
    std::string gen_key(bool fresh = false) {
        static const std::vector<std::string> pool = {"a", "b", "key one", "x.y", "sp ", "  lead", "\xC3\xBCn\xC3\xAF", "q\\", "0d", "-m", "a=b", "h#", "{c}", "[d]", "t\tb", "nl\nx", "+", "a  b", " ", "~", "null", "true", "1e3", "- x", "k: v", "#c", "'", "\"", "?", "x "};
        if (c.exhaustive) return c.boolean() ? "b" : "a";
        if (!fresh && c.chance(5, 8)) return pool[c.draw(yamlish ? pool.size() : 20)];
        std::string k = gen_string(8, true);
        if (k.empty()) k = "k";
        return k;
    }
    std::string gen_value() {
        static const std::vector<std::string> pool = {"v", "1", "", "x=y", "a#b", "two words", "line1\nline2", " lead", "trail ", "\xE2\x82\xAC", "~", "null", "Null", "NULL", "true", "false", "0x1", "1e3", ".5", "- item", "k: v", "# not comment", "'single'", "\"double\"", "|", ">", "%TAG", "@at", "&anchor", "*alias", "!tag", "[a, b]", "{a: b}", "? q", "\n", "a\n", "\na", "a\n\nb", "  \n  ", "\t", "a\tb", "\xC2\x85", "\xE2\x80\xA8", "\xEF\xBB\xBF" "bom", "---", "...", "yes", "no", "on", "off", "1_000", "0o7", "+.inf", ".nan", "2001-01-01", "a: ", " #", "x #y", "\\", "\\n", "'", "\"", "''", "\x01", "\x1b[0m", "\x7f"};
        if (c.exhaustive) return c.boolean() ? "w" : "v";
        if (c.chance(5, 8)) return pool[c.draw(yamlish ? pool.size() : 10)];
        return gen_string(10, true);
    }

    // descriptor biased towards existing paths of the model tree
    doc::Desc gen_desc(const doc::NodeP &root, bool for_set) {
        using namespace doc;
        Desc d;
        if (c.exhaustive) {      // small-scope alphabet: 15 descriptors over keys {a,b}, indices {0,1}
            static const struct { const char *path; int tail; } tab[] = {
                {"", 0}, {"a", 0}, {"b", 0}, {"a.b", 0}, {"a0", 0}, {"0", 0}, {"1", 0}, {"I0", 0}, {"+", 0},
                {"a", 1}, {"a", 2}, {"a", 3}, {"0a", 0}, {"", 1}, {"", 2}};
            size_t k = c.draw(for_set ? 15 : 15);
            for (const char *p = tab[k].path; *p; p++) {
                Elem e;
                if (*p == '.') continue;
                if (*p == 'a' || *p == 'b') { e.t = Elem::KEY; e.key = std::string(1, *p); }
                else if (*p == 'I') { e.t = Elem::INS; e.idx = *++p - '0'; }
                else if (*p == '+') e.t = Elem::APP;
                else { e.t = Elem::IDX; e.idx = *p - '0'; }
                d.path.push_back(e);
            }
            d.tail = (Desc::Tail)tab[k].tail;
            return d;
        }
        d.leading_dot = c.boolean();
        NodeP n = root;
        bool live = true;     // still following the model tree
        size_t maxdepth = c.exhaustive ? 2 : 6;
        for (size_t depth = 0; depth < maxdepth; depth++) {
            // stop?
            if (depth > 0 && !c.chance(c.exhaustive ? 1 : 3, c.exhaustive ? 2 : 5)) break;
            if (depth == 0 && !c.exhaustive && c.chance(1, 12)) break;    // root descriptor
            Elem e;
            bool want_key;
            if (live && n && n->kind == Node::MAP) want_key = !c.chance(1, 8);
            else if (live && n && n->kind == Node::LIST) want_key = c.chance(1, 8);
            else want_key = c.boolean();
            if (want_key) {
                e.t = Elem::KEY;
                if (live && n && n->kind == Node::MAP && !n->map.empty() && c.chance(3, 4)) e.key = n->map[c.draw(n->map.size())].first;
                else e.key = gen_key();
                if (live && n && n->kind == Node::MAP) { NodeP *s = n->find(e.key); if (s) n = *s; else live = false; } else live = false;
            } else {
                int len = (live && n && n->kind == Node::LIST) ? (int)n->list.size() : 0;
                int k = for_set ? c.weighted({6, 2, 2}) : c.weighted({12, 1, 1});
                e.t = k == 0 ? Elem::IDX : k == 1 ? Elem::INS : Elem::APP;
                if (c.exhaustive) e.idx = (int)c.draw(2);
                else switch (c.weighted({5, 2, 2, 1})) {
                    case 0: e.idx = len > 0 ? (int)c.draw(len) : 0; break;
                    case 1: e.idx = len; break;
                    case 2: e.idx = len > 0 ? len - 1 : 0; break;
                    default: e.idx = len + 1 + (int)c.draw(3); break;
                }
                if (live && n && n->kind == Node::LIST && e.t == Elem::IDX && e.idx < len) n = n->list[e.idx]; else live = false;
            }
            d.path.push_back(e);
        }
        switch (c.weighted({10, 1, 1, 2})) {
        case 1: d.tail = Desc::MAPT; break;
        case 2: d.tail = Desc::LISTT; break;
        case 3: d.tail = d.path.empty() ? Desc::NONE : Desc::DOT; break;
        default: break;
        }
        return d;
    }

    std::string ws() {
        if (c.exhaustive) return "";
        switch (c.weighted({12, 2, 1, 1})) { case 1: return " "; case 2: return "  "; case 3: return "\t"; default: return ""; }
    }
    std::string print_key(const std::string &k) {
        if (!c.exhaustive && c.boolean()) return own_quote(k);
        char *q = vnaproperty_quote_key(k.c_str());
        std::string s = q ? q : ""; free(q);
        return s;
    }
    // print with random legal whitespace: before any token, after keys (trimmed by the scanner)
    std::string print(const doc::Desc &d) {
        using namespace doc;
        std::string o = ws();
        if (d.is_root()) return o + "." + ws();
        bool first = true;
        for (auto &e : d.path) {
            if (e.t == Elem::KEY) {
                if (!first || d.leading_dot) o += "." + ws();
                o += print_key(e.key) + ws();
            } else {
                if ((first && d.leading_dot) || (!first && !c.exhaustive && c.chance(1, 4))) o += "." + ws();
                o += "[" + ws();
                if (e.t == Elem::APP) o += "+" + ws();
                else { o += std::to_string(e.idx) + ws(); if (e.t == Elem::INS) o += "+" + ws(); }
                o += "]" + ws();
            }
            first = false;
        }
        bool dot = (first && d.leading_dot) || (!first && d.tail != Desc::DOT && !c.exhaustive && c.chance(1, 4));
        switch (d.tail) {
        case Desc::MAPT: if (dot) o += "." + ws(); o += "{" + ws() + "}" + ws(); break;
        case Desc::LISTT: if (dot) o += "." + ws(); o += "[" + ws() + "]" + ws(); break;
        case Desc::DOT: o += "." + ws(); break;
        default: break;
        }
        return o;
    }

    std::string gen_malformed() {
        static const std::vector<std::string> pool = {"", " ", "[", "]", "[1", "[-1]", "[a]", "{", "}", "{x}", "a..b", "a.[", "[+", "[1+", "a]", "a}", "[1]]", "a{}{}", "a{}.b", "a[].b", "+", "*", "a*b", "a,b", "\"q\"", "a.(c)", "[+]x", "a\\", "\\", "a%", "..", "a.b..", "[1][", "a[1 2]", "[++]", "[+1]", "{}x", "[]x", "a.{}.", "a;b", "<a>", "a|b", "$a", "a&", "(", "a:b", "a/b"};
        return pool[c.draw(pool.size())];
    }
};
