// vna.hpp -- C++ access to the libvna public API plus the error-callback recorder.
// Include AFTER all C++ standard headers (see cxxinc/complex.h).
#pragma once
#include <complex>
#include <vector>
#include <string>
#include <cerrno>
#include <cstring>
#include <cstdio>
#include <cmath>
extern "C" {
#include <complex.h>
#include "vnaerr.h"
#include "vnaproperty.h"
#include "vnaconv.h"
#include "vnadata.h"
#include "vnacal.h"
}
#undef complex
#undef I

typedef double _Complex dcx;
typedef std::complex<double> cd;
typedef std::complex<long double> cld;

static inline dcx mkc(double re, double im) { return __builtin_complex(re, im); }
static inline dcx mkc(cd z) { return __builtin_complex(z.real(), z.imag()); }
static inline cd tocd(dcx z) { return cd(__real__ z, __imag__ z); }
static inline double re_(dcx z) { return __real__ z; }
static inline double im_(dcx z) { return __imag__ z; }
static inline bool same_bits(dcx a, dcx b) { return memcmp(&a, &b, sizeof a) == 0; }
static inline bool same_bits(double a, double b) { return memcmp(&a, &b, sizeof a) == 0; }

// ---- error callback recorder ------------------------------------------------
struct ErrRec { int category; int err; std::string msg; };
struct ErrLog {
    std::vector<ErrRec> recs;
    void clear() { recs.clear(); }
    int n_nonwarning() const { int n = 0; for (auto &r : recs) if (r.category != VNAERR_WARNING) n++; return n; }
    int n_total() const { return (int)recs.size(); }
    const ErrRec *last() const { return recs.empty() ? nullptr : &recs.back(); }
    std::string text() const { std::string s; for (auto &r : recs) { s += "[" + std::to_string(r.category) + "/" + std::to_string(r.err) + "] " + r.msg + "; "; } return s; }
};
static inline void errlog_fn(const char *message, void *arg, vnaerr_category_t category) {
    ErrLog *l = (ErrLog *)arg;
    int e = errno;
    if (l && l->recs.size() < 64) l->recs.push_back(ErrRec{(int)category, e, message ? message : "(null)"});
    errno = e;
}

static inline const char *type_name(int t) {
    static const char *n[] = {"UNDEF","S","T","U","Z","Y","H","G","A","B","ZIN"};
    return (t >= 0 && t <= 10) ? n[t] : "?";
}
