// convref.hpp -- independent reference for network-parameter conversions (DESIGN.md section 2).
//
// Source of every formula in this file: the tables of vnaconv(3), nothing from the library code.
//
//   state            u = (v_1..v_n, i_1..i_n)   v_k voltage at port k, i_k current INTO port k
//   power waves      a_k = 1/2 K_k (v_k + Z_k  i_k)       K_k = 1 / sqrt(|Re Z_k|)
//                    b_k = 1/2 K_k (v_k - Z_k* i_k)       Z_k = reference impedance of port k
//   S   [b1..bn]    = S [a1..an]
//   T   [b1; a1]    = T [a2; b2]
//   U   [a2; b2]    = U [b1; a1]
//   Z   [v1..vn]    = Z [i1..in]
//   Y   [i1..in]    = Y [v1..vn]
//   H   [v1; i2]    = H [i1; v2]
//   G   [i1; v2]    = G [v1; i2]
//   A   [v1; i1]    = A [v2; -i2]
//   B   [v2; -i2]   = B [v1; i1]
//   Zin zin_k = v_k / i_k when every other port j is terminated in Z_j, i.e. v_j = -Z_j i_j
//
// Every matrix type X is therefore "D_X u = N E_X u" with two n x 2n matrices of linear
// functionals (rows) D_X, E_X that depend only on z0; the constraint is R_X(N, z0) = D_X - N E_X.
// [D_X; E_X] is a non-singular 2n x 2n matrix, so R_X always has rank n and its null space (the
// set of states the network allows) has dimension n.  Two matrices denote the same network iff
// the null spaces coincide; because both have dimension n, inclusion suffices.
//
// Numerics are done in *normalised* state coordinates x = (v_k / sqrt|Z_k|, i_k sqrt|Z_k|) so
// that ohms, siemens and dimensionless entries become comparable: a voltage functional of port k
// has weight sqrt|Z_k|, a current functional 1/sqrt|Z_k|, a wave functional 1, and the normalised
// matrix is  Nhat_ij = N_ij * wE_j / wD_i.
#pragma once
#include "refla.hpp"
#include <vector>
#include <string>

namespace convref {

using refla::C;
using refla::Mat;
using refla::real;

// numbering equals vnadata_parameter_type_t (checked by static_asserts in the harnesses)
enum { P_UNDEF = 0, P_S = 1, P_T, P_U, P_Z, P_Y, P_H, P_G, P_A, P_B, P_ZIN };

static inline bool is_matrix_type(int t) { return t >= P_S && t <= P_B; }
static inline bool is_wave_type(int t) { return t == P_S || t == P_T || t == P_U; }
static inline bool is_nport_type(int t) { return t == P_S || t == P_Z || t == P_Y; }
static inline const char *letter(int t) { static const char *l[] = {"-", "s", "t", "u", "z", "y", "h", "g", "a", "b", "zi"}; return (t >= 0 && t <= 10) ? l[t] : "?"; }

// ---- linear functionals on the state -------------------------------------------------------
struct Fn {                       // one row: coefficients over u plus its natural weight
    std::vector<C> row; real w;
};
static inline Fn fn_v(int n, int k, const std::vector<C> &z0) { Fn f; f.row.assign(2 * n, C(0)); f.row[k] = C(1); f.w = sqrtl(refla::abs(z0[k])); return f; }
static inline Fn fn_i(int n, int k, const std::vector<C> &z0, real sign = 1) { Fn f; f.row.assign(2 * n, C(0)); f.row[n + k] = C(sign); f.w = 1 / sqrtl(refla::abs(z0[k])); return f; }
static inline real wave_K(const C &z) { return 1 / sqrtl(fabsl(z.re)); }
static inline Fn fn_a(int n, int k, const std::vector<C> &z0) {
    Fn f; f.row.assign(2 * n, C(0)); real K = wave_K(z0[k]);
    f.row[k] = C(K / 2); f.row[n + k] = C(K / 2) * z0[k]; f.w = 1; return f;
}
static inline Fn fn_b(int n, int k, const std::vector<C> &z0) {
    Fn f; f.row.assign(2 * n, C(0)); real K = wave_K(z0[k]);
    f.row[k] = C(K / 2); f.row[n + k] = -(C(K / 2) * refla::conj(z0[k])); f.w = 1; return f;
}

struct Rel {
    int n = 0;
    Mat D, E;                     // physical units, n x 2n each:  D u = N E u
    std::vector<real> wD, wE;     // natural weights of the rows
};

// defining relation of a matrix type, as tabulated in vnaconv(3)
static inline bool relation(int type, const std::vector<C> &z0, Rel &r) {
    int n = (int)z0.size();
    std::vector<Fn> d, e;
    if (!is_matrix_type(type)) return false;
    if (!is_nport_type(type) && n != 2) return false;
    switch (type) {
    case P_S: for (int k = 0; k < n; k++) { d.push_back(fn_b(n, k, z0)); e.push_back(fn_a(n, k, z0)); } break;
    case P_Z: for (int k = 0; k < n; k++) { d.push_back(fn_v(n, k, z0)); e.push_back(fn_i(n, k, z0)); } break;
    case P_Y: for (int k = 0; k < n; k++) { d.push_back(fn_i(n, k, z0)); e.push_back(fn_v(n, k, z0)); } break;
    case P_T: d = {fn_b(n, 0, z0), fn_a(n, 0, z0)}; e = {fn_a(n, 1, z0), fn_b(n, 1, z0)}; break;
    case P_U: d = {fn_a(n, 1, z0), fn_b(n, 1, z0)}; e = {fn_b(n, 0, z0), fn_a(n, 0, z0)}; break;
    case P_H: d = {fn_v(n, 0, z0), fn_i(n, 1, z0)}; e = {fn_i(n, 0, z0), fn_v(n, 1, z0)}; break;
    case P_G: d = {fn_i(n, 0, z0), fn_v(n, 1, z0)}; e = {fn_v(n, 0, z0), fn_i(n, 1, z0)}; break;
    case P_A: d = {fn_v(n, 0, z0), fn_i(n, 0, z0)}; e = {fn_v(n, 1, z0), fn_i(n, 1, z0, -1)}; break;
    case P_B: d = {fn_v(n, 1, z0), fn_i(n, 1, z0, -1)}; e = {fn_v(n, 0, z0), fn_i(n, 0, z0)}; break;
    }
    r.n = n; r.D = Mat(n, 2 * n); r.E = Mat(n, 2 * n); r.wD.resize(n); r.wE.resize(n);
    for (int k = 0; k < n; k++) {
        for (int j = 0; j < 2 * n; j++) { r.D(k, j) = d[k].row[j]; r.E(k, j) = e[k].row[j]; }
        r.wD[k] = d[k].w; r.wE[k] = e[k].w;
    }
    return true;
}

// R_X(N, z0) = D - N E  (physical units)
static inline Mat constraint(int type, const Mat &N, const std::vector<C> &z0) {
    Rel r; relation(type, z0, r);
    return refla::sub(r.D, refla::mul(N, r.E));
}

// ---- normalised coordinates --------------------------------------------------------------
// u = Sigma x,  Sigma = diag(sqrt|Z_k| (voltages), 1/sqrt|Z_k| (currents))
static inline std::vector<real> sigma(const std::vector<C> &z0) {
    int n = (int)z0.size(); std::vector<real> s(2 * n);
    for (int k = 0; k < n; k++) { real m = sqrtl(refla::abs(z0[k])); s[k] = m; s[n + k] = 1 / m; }
    return s;
}
struct RelHat { int n = 0; Mat D, E, P; std::vector<real> wD, wE; };   // P = [D; E] (2n x 2n), rows O(1)
static inline bool relation_hat(int type, const std::vector<C> &z0, RelHat &h) {
    Rel r; if (!relation(type, z0, r)) return false;
    int n = r.n; std::vector<real> s = sigma(z0);
    h.n = n; h.D = r.D; h.E = r.E; h.wD = r.wD; h.wE = r.wE;
    for (int k = 0; k < n; k++)
        for (int j = 0; j < 2 * n; j++) { h.D(k, j) = h.D(k, j) * C(s[j] / r.wD[k]); h.E(k, j) = h.E(k, j) * C(s[j] / r.wE[k]); }
    h.P = refla::vstack(h.D, h.E);
    return true;
}
static inline Mat to_hat(const Mat &N, const std::vector<real> &wD, const std::vector<real> &wE) {
    Mat m = N; for (int i = 0; i < m.r; i++) for (int j = 0; j < m.c; j++) m(i, j) = m(i, j) * C(wE[j] / wD[i]); return m;
}
static inline Mat from_hat(const Mat &N, const std::vector<real> &wD, const std::vector<real> &wE) {
    Mat m = N; for (int i = 0; i < m.r; i++) for (int j = 0; j < m.c; j++) m(i, j) = m(i, j) * C(wD[i] / wE[j]); return m;
}

// ---- reference conversion: n independent states -> matrix of a given type -------------------
// U: 2n x n, columns are states in PHYSICAL units.  N = (D U)(E U)^-1.  kappa = cond_inf of the
// normalised E U (distance of this representation from its singular set).
static inline Mat from_states(int type, const Mat &U, const std::vector<C> &z0, bool *ok, real *kappa = nullptr) {
    RelHat h; int n = (int)z0.size();
    if (!relation_hat(type, z0, h) || U.r != 2 * n || U.c != n) { if (ok) *ok = false; return Mat(n, n); }
    std::vector<real> s = sigma(z0);
    Mat X = U; for (int i = 0; i < 2 * n; i++) for (int j = 0; j < n; j++) X(i, j) = X(i, j) / C(s[i]);
    Mat EU = refla::mul(h.E, X), DU = refla::mul(h.D, X);
    if (kappa) *kappa = refla::cond_inf(EU);
    bool good; Mat Nh = refla::rsolve(DU, EU, &good);
    if (ok) *ok = good;
    return from_hat(Nh, h.wD, h.wE);
}

// Basis of the states allowed by matrix N of the given type: physical 2n x n, columns span
// null(R_X(N, z0)); normalised so that E_X applied to it is the identity.
static inline Mat states_of(int type, const Mat &N, const std::vector<C> &z0, bool *ok = nullptr) {
    Rel r; int n = (int)z0.size();
    if (!relation(type, z0, r)) { if (ok) *ok = false; return Mat(2 * n, n); }
    return refla::solve(refla::vstack(r.D, r.E), refla::vstack(N, Mat::identity(n)), ok);
}

// ---- analysis of one conversion at one input ---------------------------------------------------
struct Analysis {
    bool ok = false;          // false: source or destination representation (numerically) singular
    int n = 0;
    RelHat src, dst;
    Mat Nin_hat;              // normalised input matrix
    Mat W;                    // normalised states of the input, 2n x n, E_src W = I
    Mat X, M;                 // X = D_dst W, M = E_dst W : reference output is X M^-1
    Mat Nref_hat, Nref;       // reference output, normalised and physical
    real kappa = INFINITY;    // condition of the conversion at this input (see below)
    real sens = INFINITY;     // bound on |d Nout_hat| / |d Nin_hat|  (absolute, max norms)
};
// kappa bounds, to first order, the change of the normalised output (max norm) caused by
// relative perturbations of size eps of the input matrix and of the functionals P_src:
//   dW = P_src^-1 [dN; 0]              =>  |dW| <= |P_src^-1| |dN|
//   dNout = (D_dst dW - Nout E_dst dW) M^-1
//   => |dNout| <= |P_dst| (1 + |Nout|) |M^-1| |P_src^-1| |dN|
// kappa = n * cond(P_src) * |P_dst| * (1 + |Nin|) * (1 + |Nout|) * |M^-1|   (infinity norms; the
// factor n turns the infinity norm of a perturbation into its max norm).
static inline Analysis analyse(int src, const Mat &Nin, int dst, const std::vector<C> &z0) {
    Analysis a; a.n = (int)z0.size(); int n = a.n;
    if (!relation_hat(src, z0, a.src) || !relation_hat(dst, z0, a.dst) || Nin.r != n || Nin.c != n) return a;
    a.Nin_hat = to_hat(Nin, a.src.wD, a.src.wE);
    bool ok1, ok2, ok3;
    a.W = refla::solve(a.src.P, refla::vstack(a.Nin_hat, Mat::identity(n)), &ok1);
    if (!ok1) return a;
    a.X = refla::mul(a.dst.D, a.W); a.M = refla::mul(a.dst.E, a.W);
    Mat Mi = refla::inverse(a.M, &ok2);
    if (!ok2) return a;
    a.Nref_hat = refla::mul(a.X, Mi);
    a.Nref = from_hat(a.Nref_hat, a.dst.wD, a.dst.wE);
    Mat Pi = refla::inverse(a.src.P, &ok3);
    if (!ok3 || !a.Nref_hat.all_finite()) return a;
    real nPi = refla::norm_inf(Pi), nP = refla::norm_inf(a.src.P), nPd = refla::norm_inf(a.dst.P);
    real nMi = refla::norm_inf(Mi), nIn = refla::norm_inf(a.Nin_hat), nOut = refla::norm_inf(a.Nref_hat);
    a.sens = n * nPd * (1 + nOut) * nMi * nPi;     // factor n: max norm of dN versus infinity norm
    a.kappa = a.sens * nP * (1 + nIn);
    a.ok = std::isfinite((double)a.kappa);
    return a;
}
// Defining-relation residual of a candidate output: the relation D_dst x = Nout E_dst x is
// evaluated on the states W of the input; the n x n residual (X - Nout_hat M) is brought back to
// matrix units by M^-1.  Returns the max-norm of that (0 iff Nout denotes exactly the input's network).
static inline real relation_error(const Analysis &a, const Mat &Nout) {
    Mat Nh = to_hat(Nout, a.dst.wD, a.dst.wE);
    if (!Nh.all_finite()) return INFINITY;
    Mat resid = refla::sub(a.X, refla::mul(Nh, a.M));
    bool ok; Mat e = refla::rsolve(resid, a.M, &ok);
    if (!ok) return INFINITY;
    return refla::norm_max(e);
}

// Same-network test for two matrices of (possibly different) types with the same z0: distance of
// NB from the exact conversion of NA, in normalised units of type B, and the conversion's kappa.
static inline bool same_network(int tA, const Mat &NA, int tB, const Mat &NB, const std::vector<C> &z0, real *dist, real *kappa) {
    Analysis a = analyse(tA, NA, tB, z0);
    if (!a.ok) { if (dist) *dist = INFINITY; if (kappa) *kappa = INFINITY; return false; }
    if (dist) *dist = relation_error(a, NB);
    if (kappa) *kappa = a.kappa;
    return true;
}

// The same question answered literally by null spaces (no conversion involved): a basis of
// null(R_A(NA)) is computed by rank-revealing elimination and pushed through R_B(NB); returns
// |R_B Null(R_A)|_max / (|R_B|_inf |Null|_max) in normalised coordinates (0 iff same network).
static inline real nullspace_residual(int tA, const Mat &NA, int tB, const Mat &NB, const std::vector<C> &z0) {
    RelHat ha, hb; int n = (int)z0.size();
    if (!relation_hat(tA, z0, ha) || !relation_hat(tB, z0, hb)) return INFINITY;
    Mat RA = refla::sub(ha.D, refla::mul(to_hat(NA, ha.wD, ha.wE), ha.E));
    Mat RB = refla::sub(hb.D, refla::mul(to_hat(NB, hb.wD, hb.wE), hb.E));
    int rk; Mat Nsp = refla::nullspace(RA, 1e-13L, &rk);
    if (rk != n || Nsp.c != n || !RB.all_finite()) return INFINITY;
    return refla::norm_max(refla::mul(RB, Nsp)) / (refla::norm_inf(RB) * refla::norm_max(Nsp));
}

// ---- input impedance -------------------------------------------------------------------------
struct ZinRef {
    bool ok = false;
    C zin;                    // physical (ohms)
    real kappa = INFINITY;    // bound on |d (zin/|Z_p|)| per unit relative perturbation
};
// W: normalised states (2n x n) of the network; port p driven, every other port j terminated in
// its reference impedance: v_j + Z_j i_j = 0, in normalised form vhat_j + (Z_j/|Z_j|) ihat_j = 0.
// Solve  T W c = e_p  with T rows: termination functionals (j != p), ihat_p (row p)  =>  the
// state W c has i_p = 1 (normalised) and zin_p / |Z_p| = vhat_p(W c).
static inline ZinRef zin_port(const Mat &W, const std::vector<C> &z0, int p, real kappa_states) {
    ZinRef z; int n = (int)z0.size();
    Mat T(n, 2 * n);
    for (int j = 0; j < n; j++) {
        if (j == p) { T(j, n + j) = C(1); continue; }
        T(j, j) = C(1); T(j, n + j) = z0[j] / C(refla::abs(z0[j]));
    }
    Mat Mp = refla::mul(T, W), e(n, 1); e(p, 0) = C(1);
    bool ok; Mat Mpi = refla::inverse(Mp, &ok);
    if (!ok) return z;
    Mat c = refla::mul(Mpi, e), x = refla::mul(W, c);
    C zh = x(p, 0);
    real c1 = 0; for (int k = 0; k < n; k++) c1 += refla::abs(c(k, 0));
    z.zin = zh * C(refla::abs(z0[p]));
    z.kappa = kappa_states * c1 * (1 + 2 * refla::norm_inf(W) * refla::norm_inf(Mpi));
    z.ok = refla::finite(z.zin) && std::isfinite((double)z.kappa);
    return z;
}
struct ZinAnalysis { bool ok = false; std::vector<C> zin; std::vector<real> kappa; real kappa_max = INFINITY; Mat Nin_hat; };
static inline ZinAnalysis analyse_zin(int src, const Mat &Nin, const std::vector<C> &z0) {
    ZinAnalysis r; int n = (int)z0.size();
    RelHat h; if (!relation_hat(src, z0, h) || Nin.r != n || Nin.c != n) return r;
    r.Nin_hat = to_hat(Nin, h.wD, h.wE);
    bool ok1, ok2;
    Mat W = refla::solve(h.P, refla::vstack(r.Nin_hat, Mat::identity(n)), &ok1);
    Mat Pi = refla::inverse(h.P, &ok2);
    if (!ok1 || !ok2) return r;
    // perturbation of the states caused by relative perturbations of Nin and of P
    real ks = refla::norm_inf(Pi) * refla::norm_inf(h.P) * (1 + refla::norm_inf(r.Nin_hat));
    r.kappa_max = 0;
    for (int p = 0; p < n; p++) {
        ZinRef z = zin_port(W, z0, p, ks);
        if (!z.ok) { r.kappa_max = INFINITY; return r; }
        r.zin.push_back(z.zin); r.kappa.push_back(z.kappa); r.kappa_max = std::max(r.kappa_max, z.kappa);
    }
    r.ok = true;
    return r;
}
// input impedance at port p directly from n independent physical states (2n x n)
static inline C zin_from_states(const Mat &U, const std::vector<C> &z0, int p, bool *ok) {
    int n = (int)z0.size(); std::vector<real> s = sigma(z0);
    Mat X = U; for (int i = 0; i < 2 * n; i++) for (int j = 0; j < n; j++) X(i, j) = X(i, j) / C(s[i]);
    ZinRef z = zin_port(X, z0, p, 1);
    if (ok) *ok = z.ok;
    return z.zin;
}

// ---- self-test: identities that follow from the definitions alone ---------------------------
static inline const char *selftest() {
    // a series impedance Zs between the ports of a 2-port: v1 - v2 = Zs i1, i2 = -i1
    //   A = [[1, Zs], [0, 1]],  Y = 1/Zs [[1,-1],[-1,1]],  zin at port 1 with port 2 in Z2 = Zs + Z2
    C Zs(30, 40); std::vector<C> z0 = {C(50, 10), C(75, -20)};
    Mat U(4, 2);                     // states: (v1,v2,i1,i2) = (Zs+1, 1, 1, -1) and (1, 1, 0, 0)
    U(0, 0) = Zs + C(1); U(1, 0) = C(1); U(2, 0) = C(1); U(3, 0) = C(-1);
    U(0, 1) = C(1); U(1, 1) = C(1);
    bool ok; Mat A = from_states(P_A, U, z0, &ok);
    if (!ok) return "series element: A not obtainable";
    Mat Aexp(2, 2); Aexp(0, 0) = C(1); Aexp(0, 1) = Zs; Aexp(1, 1) = C(1);
    if (refla::norm_max(refla::sub(A, Aexp)) > 1e-15L) return "series element: A != [[1,Zs],[0,1]]";
    Mat Y = from_states(P_Y, U, z0, &ok);
    Mat Yexp(2, 2); Yexp(0, 0) = C(1) / Zs; Yexp(1, 1) = C(1) / Zs; Yexp(0, 1) = -(C(1) / Zs); Yexp(1, 0) = -(C(1) / Zs);
    if (!ok || refla::norm_max(refla::sub(Y, Yexp)) > 1e-17L) return "series element: Y";
    Mat Bm = from_states(P_B, U, z0, &ok);
    if (!ok || refla::norm_max(refla::sub(refla::mul(A, Bm), Mat::identity(2))) > 1e-15L) return "B is not the inverse of A";
    Mat H = from_states(P_H, U, z0, &ok), G = from_states(P_G, U, z0, &ok);
    Mat Hexp(2, 2); Hexp(0, 0) = Zs; Hexp(0, 1) = C(1); Hexp(1, 0) = C(-1);
    if (refla::norm_max(refla::sub(H, Hexp)) > 1e-15L) return "series element: H != [[Zs,1],[-1,0]]";
    Mat Gexp(2, 2); Gexp(0, 1) = C(-1); Gexp(1, 0) = C(1); Gexp(1, 1) = Zs;     // i1 = -i2, v2 = v1 + Zs i2
    if (!ok || refla::norm_max(refla::sub(G, Gexp)) > 1e-15L) return "series element: G != [[0,-1],[1,Zs]]";
    C zi1 = zin_from_states(U, z0, 0, &ok);
    if (!ok || refla::abs(zi1 - (Zs + z0[1])) > 1e-14L) return "series element: zin1 != Zs + Z2";
    C zi2 = zin_from_states(U, z0, 1, &ok);
    if (!ok || refla::abs(zi2 - (Zs + z0[0])) > 1e-14L) return "series element: zin2 != Zs + Z1";
    // S, T, U: T and U are mutually inverse, and T follows from S by the two definitions
    Mat S = from_states(P_S, U, z0, &ok), T = from_states(P_T, U, z0, &ok), Um = from_states(P_U, U, z0, &ok);
    if (!ok || refla::norm_max(refla::sub(refla::mul(T, Um), Mat::identity(2))) > 1e-14L) return "U is not the inverse of T";
    // t = [[-det(s)/s21, s11/s21], [-s22/s21, 1/s21]] follows from the two definitions
    C det = S(0, 0) * S(1, 1) - S(0, 1) * S(1, 0);
    if (refla::abs(T(1, 1) - C(1) / S(1, 0)) > 1e-14L || refla::abs(T(0, 1) - S(0, 0) / S(1, 0)) > 1e-14L ||
        refla::abs(T(1, 0) + S(1, 1) / S(1, 0)) > 1e-14L || refla::abs(T(0, 0) + det / S(1, 0)) > 1e-14L) return "T does not follow from S";
    // zin from s11: (Z1* + Z1 s11) / (1 - s11)
    C zs = (refla::conj(z0[0]) + z0[0] * S(0, 0)) / (C(1) - S(0, 0));
    if (refla::abs(zs - zi1) > 1e-13L) return "zin1 != (Z1* + Z1 s11)/(1 - s11)";
    // analysis machinery: exact reference conversion reproduces from_states, relation_error = 0
    Analysis a = analyse(P_A, A, P_S, z0);
    if (!a.ok || refla::norm_max(refla::sub(a.Nref, S)) > 1e-15L) return "analyse(A->S) differs from from_states(S)";
    if (relation_error(a, S) > 1e-16L) return "relation_error of the exact output is not 0";
    Mat S2 = S; S2(0, 1) = S2(0, 1) * C(1.001L);
    if (!(relation_error(a, S2) > 1e-5L)) return "relation_error does not see a perturbed output";
    if (nullspace_residual(P_A, A, P_S, S, z0) > 1e-16L || nullspace_residual(P_H, H, P_T, T, z0) > 1e-16L) return "nullspace_residual of the same network is not 0";
    if (!(nullspace_residual(P_A, A, P_S, S2, z0) > 1e-6L)) return "nullspace_residual does not see a perturbed matrix";
    // constraint null space: R_S(S) U = 0 and rank n
    Mat R = constraint(P_S, S, z0);
    if (refla::norm_max(refla::mul(R, U)) > 1e-13L || refla::rank(R) != 2) return "R_S(S) U != 0";
    ZinAnalysis za = analyse_zin(P_Y, Y, z0);
    if (!za.ok || refla::abs(za.zin[0] - zi1) > 1e-13L || refla::abs(za.zin[1] - zi2) > 1e-13L) return "analyse_zin(Y)";
    // 3-port: Z = ones * R0 (three ports on one node through nothing: v_k all equal, sum i = v/R0)
    std::vector<C> z3 = {C(50), C(20, 5), C(100, -30)};
    Mat Z3(3, 3); for (auto &q : Z3.a) q = C(10);
    for (int k = 0; k < 3; k++) Z3(k, k) += C(5);          // plus 5 ohm in series with each port
    ZinAnalysis z3a = analyse_zin(P_Z, Z3, z3);
    // port 0: 5 + 10 || (5+Z1) || (5+Z2)  (star: 5 ohm arms, 10 ohm from centre to ground)
    C y = C(1) / C(10) + C(1) / (C(5) + z3[1]) + C(1) / (C(5) + z3[2]);
    if (!z3a.ok || refla::abs(z3a.zin[0] - (C(5) + C(1) / y)) > 1e-13L) return "3-port star: zin0";
    return "";
}

} // namespace convref
