// apiexec.hpp -- stateful executor over the whole public libvna API (shared by C03 and C11).
//
// A pool of live objects (<= 2 vnacal_t, <= 3 vnacal_new_t each, <= 12 user parameters each,
// <= 3 vnadata_t, <= 2 property roots) and an operation alphabet covering every public entry
// point.  Every operation is generated from Ctx draws (c.mark() first, c.note() of the call);
// every libvna call goes through Exec::icall/pcall/dcall/ccall/vcall, which hand a Call record
// (function name, expectation derived from the man pages, acceptable failure causes, the object
// that must stay unchanged if the call is refused) to an Observer before and after the call.
// The two harnesses differ only in their Observer.
//
// Argument classes (DESIGN C03): valid (from the pool / the object's dimensions), boundary
// (0, n-1, n, n+1, -1), invalid (wrong dimension, deleted handle, NULL optional pointer, enum out
// of range, precision 0/-1/40/MAX).  Pointers always refer to live objects of the right kind and
// buffers are heap blocks of EXACTLY the declared size (so any access beyond the declared
// dimensions is an ASan report).  Dimensions <= 5 (+1 for the boundary class), frequencies <= 6.
//
// The executor is model-free wherever it can be: dimensions of a vnadata_t are re-read through the
// getters before each operation, property trees are re-read with read_tree(); only things the API
// cannot report (parameter liveness/kind, the scenario behind a vnacal_new_t, the history of
// successful calls on it) are tracked.
#pragma once
#include "pbt.hpp"
#include <memory>
#include <functional>
#include <algorithm>
#include <set>
#include <sys/mman.h>
#include <unistd.h>
#include "vna.hpp"
#include "docmodel.hpp"
#include "propgen.hpp"
#include "arraymodel.hpp"
#include "calscen.hpp"

namespace apix {
using pbt::Ctx;

enum Expect {
    XP_OK = 0,      // arguments valid per the man page (success expected; tracked, not asserted)
    XP_FAIL = 1,    // an argument is invalid per the man page: the documented failure value is required
    XP_EITHER = 2,  // man page silent / numerical: either outcome
    XP_MUST = 3     // success is part of a C11 clause (indices honoured / usable after a late failure)
};
enum { C_USAGE = 1, C_MATH = 2, C_SYNTAX = 4, C_MISSING = 8, C_VERSION = 16, C_SYSTEM = 32, C_ANY = 63 };
enum ObjKind { O_NONE = 0, O_DATA, O_PROP, O_CAL, O_NEW };
enum RetKind { R_INT, R_PTR, R_DBL, R_CPX, R_VOID };

struct Call {
    const char *fn = "";
    Expect expect = XP_OK;
    unsigned causes = C_USAGE;     // acceptable causes if the call fails
    const char *why = "valid";     // short name of the argument class (coverage table)
    ObjKind okind = O_NONE;        // object whose digest must be unchanged when the call is refused ...
    int oi = -1, oj = -1;          // ... pool index (O_NEW: oi = vnacal_t index, oj = index within it)
    bool check_errno = true;       // false: the man page does not say what errno is for this outcome (tracked only)
    bool late = false;             // init/load/convert/solve/apply: failure may leave the destination changed (usable only)
    ErrLog *log = nullptr;         // recorder receiving this call's callbacks (nullptr: function has no error_fn at all)
    bool has_fn = true;            // false: the object was created with error_fn == NULL
    // results
    RetKind rk = R_INT;
    bool failed = false;
    int err = 0;
    long iret = 0;
};

struct Exec;
struct Observer {
    virtual void before(Exec &, Call &) {}
    virtual void after(Exec &, Call &) {}
    // a clause only C11 asserts (indices honoured, usable after late failure)
    virtual void claim(bool, const char *, const std::string &) {}
    virtual ~Observer() {}
};

// ---- exact-size heap buffers -------------------------------------------------------------------
template <class T> struct Buf {
    T *p = nullptr; size_t n = 0;
    Buf() {}
    explicit Buf(size_t n_) : n(n_) { p = (T *)malloc(n ? n * sizeof(T) : 0); if (!p) abort(); for (size_t i = 0; i < n; i++) new (&p[i]) T(); }
    Buf(const Buf &o) : n(o.n) { p = (T *)malloc(n ? n * sizeof(T) : 0); if (!p) abort(); for (size_t i = 0; i < n; i++) p[i] = o.p[i]; }
    Buf(Buf &&o) noexcept : p(o.p), n(o.n) { o.p = nullptr; o.n = 0; }
    Buf &operator=(Buf o) { std::swap(p, o.p); std::swap(n, o.n); return *this; }
    ~Buf() { free(p); }
    T &operator[](size_t i) { return p[i]; }
    const T &operator[](size_t i) const { return p[i]; }
};
// matrix of per-frequency vectors with DECLARED dimensions rows x cols (each may be <= 0: no cells)
struct PMat {
    int rows, cols, F;
    std::vector<Buf<dcx>> cells;
    Buf<dcx *> ptr;
    PMat(int r, int cc, int f) : rows(r), cols(cc), F(f) {
        size_t n = (r > 0 && cc > 0) ? (size_t)r * cc : 0;
        cells.reserve(n);
        for (size_t i = 0; i < n; i++) cells.emplace_back((size_t)std::max(f, 0));
        ptr = Buf<dcx *>(n);
        for (size_t i = 0; i < n; i++) ptr[i] = cells[i].p;
    }
    // copy what fits from a calscen matrix
    void fill(const cs::MatVec &src) {
        for (int i = 0; i < std::min(rows, src.rows); i++) for (int j = 0; j < std::min(cols, src.cols); j++)
            for (int f = 0; f < std::min(F, src.F); f++) cells[(size_t)i * cols + j][f] = src.store[(size_t)i * src.cols + j][f];
    }
    dcx **p() { return ptr.p; }
};

struct MemFd {      // memfd addressed through /proc/self/fd: nothing touches the disk
    int fd = -1; std::string path;
    MemFd() { fd = memfd_create("apix", 0); if (fd < 0) throw pbt::Fail{"harness.error", "memfd_create failed"}; path = "/proc/self/fd/" + std::to_string(fd); }
    ~MemFd() { if (fd >= 0) close(fd); }
    MemFd(const MemFd &) = delete;
    void put(const std::string &s) { if (ftruncate(fd, 0) != 0 || pwrite(fd, s.data(), s.size(), 0) != (ssize_t)s.size()) throw pbt::Fail{"harness.error", "write to memfd failed"}; }
    std::string get() { std::string s; char b[65536]; off_t off = 0; ssize_t n; while ((n = pread(fd, b, sizeof b, off)) > 0) { s.append(b, n); off += n; } return s; }
};
struct MemOut { char *buf = nullptr; size_t len = 0; FILE *fp; MemOut() { fp = open_memstream(&buf, &len); } ~MemOut() { if (fp) fclose(fp); free(buf); } std::string text() { fflush(fp); return std::string(buf ? buf : "", len); } };

static inline std::string ascii(const std::string &s) { std::string o; for (unsigned char ch : s) { if (ch >= 0x7f || ch < 0x20) { char b[8]; snprintf(b, sizeof b, "\\x%02x", ch); o += b; } else o += (char)ch; } return o; }

// ---- pool --------------------------------------------------------------------------------------
struct ParamRec {
    enum Kind { SCALAR, VECTOR, UNKNOWN, CORRELATED } kind = SCALAR;
    int h = -1;                      // handle in its vnacal_t
    bool deleted = false, predefined = false;
    dcx value = mkc(0, 0);           // SCALAR
    std::vector<double> fv;          // VECTOR grid
    std::vector<dcx> gv;
    int other = -1;                  // UNKNOWN / CORRELATED: pool index of the guess / correlate
    bool sfv_null = true;            // CORRELATED recipe
    std::vector<double> sfv, sv;
    bool has_truth = false;          // UNKNOWN / CORRELATED made for a scenario standard: the value it stands for
    vm::C truth = vm::C(0, 0);
    bool solved = false;             // UNKNOWN / CORRELATED: written back by a successful vnacal_new_solve ...
    std::vector<double> solved_grid; // ... over these calibration frequencies (the LAST successful solve that used it)
};
// forced shape of a new vnacal_new_t (scenario operations)
struct AllocSpec { int ty = -1, r = 1, c = 1, F = 1; std::vector<double> freq; bool defer_freq = false; };

struct CloneCtx;                     // see HistOp
// one successful state-changing call on a vnacal_new_t, replayable on a clone
typedef std::function<int(vnacal_new_t *, const std::function<int(int)> &)> HistOp;

struct NewObj {
    vnacal_new_t *p = nullptr;
    int ty = 0, r = 1, c = 1, F = 1;
    cs::Scenario sc;                 // error box + frequencies; sc.stds = scenario standards accepted so far
    std::vector<cs::Standard> todo;  // baseline standards not yet added
    bool freq_set = false, m_error = false, pristine = true, partial_s = false, has_cal = false, ever_solved = false;
    bool had_fail = false, ok_after_fail = false, failed_solve = false, retried = false;
    bool noncover = false;           // an ACCEPTED standard uses a vector parameter whose grid misses the scenario's band
    int adds_attempted = 0;
    std::vector<double> cur_freq;    // the vector last ACCEPTED by vnacal_new_set_frequency_vector (empty: none yet)
    std::vector<double> solved_freq; // cur_freq at the time of the last successful vnacal_new_solve (what its calibration carries)
    std::set<int> registered;        // parameters (pool index) used by accepted standards
    std::vector<HistOp> hist; std::vector<std::string> hist_desc;
    int refused = 0;
};
struct CalObj {
    vnacal_t *p = nullptr;
    std::unique_ptr<ErrLog> log; bool has_fn = true;
    std::vector<ParamRec> params;    // [0..2] predefined
    std::vector<std::unique_ptr<NewObj>> news;
    int max_h = 2;
    bool had_fail = false, ok_after_fail = false;
    int live_user_params() const { int n = 0; for (auto &q : params) if (!q.predefined && !q.deleted) n++; return n; }
    bool handle_live(int h) const { for (auto &q : params) if (!q.deleted && q.h == h) return true; return false; }
};
struct DataObj { vnadata_t *p = nullptr; std::unique_ptr<ErrLog> log; bool has_fn = true; bool had_fail = false, ok_after_fail = false; };
struct PropObj { vnaproperty_t *root = nullptr; bool had_fail = false, ok_after_fail = false; };

static const char *const TNAME[8] = {"T8", "U8", "TE10", "UE10", "T16", "U16", "UE14", "E12"};

// ---- executor ----------------------------------------------------------------------------------
struct Exec {
    Ctx &c;
    Observer *obs;
    PropGen pg;
    std::vector<std::unique_ptr<DataObj>> datas;     // <= 3
    std::vector<std::unique_ptr<PropObj>> props;     // <= 2
    std::vector<std::unique_ptr<CalObj>> cals;       // <= 2
    std::vector<std::pair<std::string, std::string>> dfiles;   // (filename, text) written by vnadata_fsave
    std::vector<std::string> cfiles;                           // texts written by vnacal_save
    std::vector<std::string> yfiles;                           // texts written by vnaproperty_export_yaml_to_file
    ErrLog yaml_log;                                           // recorder for the vnaproperty import/export functions
    int step = 0;
    long ncalls = 0;
    // what the non-trivial rules need
    bool did_solve = false, did_saveload = false, fail_then_ok = false, did_retry = false, did_compare = false;
    bool excl_zero_freq = false;

    bool quiet = false;               // destructor path: free without telling the observer
    const char *strict_fn = getenv("APIX_STRICT");
    bool no_exclude = getenv("APIX_NO_EXCLUDE") != nullptr;   // developer switch: generate the region of the open finding (zero-frequency calibrations) too

    Exec(Ctx &c_, Observer *o) : c(c_), obs(o), pg(c_) {}
    ~Exec() { quiet = true; free_all(); }
    // free the whole pool with the matching free functions, observed (call at the end of a case)
    void finish() { free_all(); }
    Exec(const Exec &) = delete;

    // -- call wrappers ---------------------------------------------------------------------------
    void pre(Call &k) { obs->before(*this, k); if (k.log) k.log->clear(); errno = 0; }
    void post(Call &k, bool failed, long iret) {
        k.err = errno; k.failed = failed; k.iret = iret; ncalls++;
        track(k);
        if (strict_fn && k.expect == XP_OK && failed && !strcmp(strict_fn, k.fn))      // developer aid: APIX_STRICT=<function> stops at a valid call that fails
            throw pbt::Fail{"apix.valid_failed", std::string(k.fn) + " with valid arguments failed: errno " + std::to_string(k.err) + " " + (k.log ? k.log->text() : std::string())};
        obs->after(*this, k);
        if (k.log) k.log->clear();
    }
    template <class F> int icall(Call &k, F f) { k.rk = R_INT; pre(k); int r = f(); post(k, r == -1, r); return r; }
    template <class T, class F> T *pcall(Call &k, F f) { k.rk = R_PTR; pre(k); T *r = f(); post(k, r == nullptr, r != nullptr); return r; }
    // NULL is also a legitimate answer (empty vector / empty subtree): failure = NULL with errno set
    template <class T, class F> T *pcall0(Call &k, F f) { k.rk = R_PTR; pre(k); T *r = f(); post(k, r == nullptr && errno != 0, r != nullptr); return r; }
    template <class F> double dcall(Call &k, F f) { k.rk = R_DBL; pre(k); double r = f(); post(k, r == HUGE_VAL && (k.expect == XP_FAIL || errno != 0), 0); return r; }   // a stored value may itself be infinite
    template <class F> dcx ccall(Call &k, F f) { k.rk = R_CPX; pre(k); dcx r = f(); post(k, re_(r) == HUGE_VAL && (k.expect == XP_FAIL || errno != 0), 0); return r; }
    template <class F> void vcall(Call &k, F f) { k.rk = R_VOID; k.expect = XP_EITHER; pre(k); f(); post(k, false, 0); }
    // per-object "a failing call was followed by a succeeding call on the same object"
    void track(const Call &k) {
        bool *hf = nullptr, *oa = nullptr;
        switch (k.okind) {
        case O_DATA: if (k.oi >= 0 && k.oi < (int)datas.size()) { hf = &datas[k.oi]->had_fail; oa = &datas[k.oi]->ok_after_fail; } break;
        case O_PROP: if (k.oi >= 0 && k.oi < (int)props.size()) { hf = &props[k.oi]->had_fail; oa = &props[k.oi]->ok_after_fail; } break;
        case O_CAL: if (k.oi >= 0 && k.oi < (int)cals.size()) { hf = &cals[k.oi]->had_fail; oa = &cals[k.oi]->ok_after_fail; } break;
        case O_NEW: if (k.oi >= 0 && k.oi < (int)cals.size() && k.oj >= 0 && k.oj < (int)cals[k.oi]->news.size()) { hf = &cals[k.oi]->news[k.oj]->had_fail; oa = &cals[k.oi]->news[k.oj]->ok_after_fail; } break;
        default: break;
        }
        if (!hf || k.rk == R_VOID) return;
        if (k.failed) *hf = true; else if (*hf) { *oa = true; fail_then_ok = true; }
    }
    Call mk(const char *fn, Expect e, unsigned causes, const char *why, ObjKind ok = O_NONE, int oi = -1, int oj = -1) {
        Call k; k.fn = fn; k.expect = e; k.causes = causes; k.why = why; k.okind = ok; k.oi = oi; k.oj = oj;
        if (ok == O_DATA && oi >= 0) { k.log = datas[oi]->log.get(); k.has_fn = datas[oi]->has_fn; }
        if ((ok == O_CAL || ok == O_NEW) && oi >= 0) { k.log = cals[oi]->log.get(); k.has_fn = cals[oi]->has_fn; }
        return k;
    }

    // -- small generators ------------------------------------------------------------------------
    // index from {0..n-1 uniform, n-1, n, n+1, -1}; ok is cleared when out of [0,n)
    int gidx(int n, bool &ok) {
        int r;
        switch (c.weighted({8, 1, 2, 1, 1})) {
        case 0: r = n > 0 ? (int)c.range(0, n - 1) : 0; break;
        case 1: r = n - 1; break;
        case 2: r = n; break;
        case 3: r = n + 1; break;
        default: r = -1; break;
        }
        if (r < 0 || r >= n) ok = false;
        return r;
    }
    // ARGUMENT ALIASING: with a modest, tape-determined frequency an operation passes a pointer the LIBRARY returned and
    // still owns (a name from vnacal_get_name, a value from vnaproperty_get, the object's own vectors ...) instead of a
    // private copy.  The decision is a function of values already drawn (the call counter), so old tapes keep their meaning.
    bool alias_turn(unsigned every = 2) const { return (ncalls % every) == 0; }
    // name argument of vnacal_add_calibration / vnacal_find_calibration: the library's own string when a live calibration has it
    const char *name_arg(CalObj &K, const std::string &name, const char *fn) {
        if (alias_turn()) { int end = vnacal_get_calibration_end(K.p); for (int ci = 0; ci < end; ci++) { const char *nm = vnacal_get_name(K.p, ci); if (nm && name == nm) { c.label(std::string("alias:") + fn); return nm; } } }
        return name.c_str();
    }
    dcx gval() { return c.boolean() ? mkc((double)c.range(-9, 9), (double)c.range(-9, 9)) : mkc(c.real(-2, 2), c.real(-2, 2)); }
    dcx gz0() { return c.boolean() ? mkc((double)c.range(1, 200), 0.0) : mkc(c.real(1, 500), c.real(-200, 200)); }

    // -- lifecycle -------------------------------------------------------------------------------
    void free_all();
    void run(size_t maxops, size_t mean);
    void one_op();

    // vnadata (apiexec_data.hpp)
    int need_data();
    void op_data();
    void data_new(); void data_free(int i); void data_shape(int i); void data_getters(int i); void data_setters(int i);
    void data_z0(int i); void data_convert(int i); void data_fileopts(int i); void data_save(int i); void data_load(int i);
    void gen_shape(int &type, int &rows, int &cols, bool &ok);
    // vnaproperty + vnaconv (apiexec_data.hpp)
    void op_prop(); void op_conv();
    void prop_ops(vnaproperty_t **rootp, ObjKind ok, int oi, int ci, CalObj *K);
    // vnacal_t (apiexec_cal.hpp)
    int need_cal();
    void op_cal();
    void cal_new(); void cal_free(int i); void cal_params(int i); void cal_param_query(int i); void cal_calibrations(int i); void cal_getters(int i);
    void cal_props(int i); void cal_precision(int i); void cal_save(int i); void cal_load(); void cal_apply(int i); void cal_names();
    int make_scalar(int ki, dcx v); int make_vector(int ki, const std::vector<double> &fv, const std::vector<dcx> &gv);
    int bad_handle(CalObj &K, const char *&why);
    int pick_param(CalObj &K, bool allow_bad, bool &ok, const char *&why);
    void check_param_index(int ki, int pidx);
    void check_cal_index(int ki, int ci, const std::string &name, NewObj *N);
    // vnacal_new_t (apiexec_cal.hpp)
    void op_new();
    int need_new(int ki);
    void new_alloc(int ki, bool force_valid = false, bool small = false, const AllocSpec *spec = nullptr); void new_free(int ki, int ni); void new_setfreq(int ki, int ni, bool force_valid = false, int replace_mode = -1); void new_knobs(int ki, int ni);
    void new_merror(int ki, int ni); void new_add(int ki, int ni, bool allow_bad, int force_twist = -1); void new_add_unknown(int ki, int ni, int reuse = -1); bool new_solve(int ki, int ni);
    void mark_solved(CalObj &K, NewObj &N);
    void shared_unknown_scenario(int ki); void late_setfreq_scenario(int ki); void replace_freq_scenario(int ki);
    const cs::Standard *forced_std = nullptr;     // new_add takes this standard instead of generating one (scenario operations)
    void new_retry_scenario(int ki);
    void quick_calibration(int ki);
    int cell_param(int ki, NewObj &N, cs::SCell &cell);
    std::vector<int> live_cis(CalObj &K);
};

} // namespace apix
#include "apiexec_data.hpp"
#include "apiexec_cal.hpp"
