// refla.hpp -- small dense complex linear algebra in long double for the
// reference models (DESIGN.md section 2).  Textbook code, nothing borrowed
// from libvna: Gaussian elimination with complete pivoting (rank, solve,
// inverse, null space), Householder least squares, infinity-norm condition
// numbers (plain and row-equilibrated).  Intended for n <= 40.
//
// Conventions: Mat is row-major, (r x c); all norms are infinity norms (max
// absolute row sum) unless stated otherwise; "rank" is numerical rank with a
// caller-supplied relative pivot threshold.
#pragma once
#include <cmath>
#include <cstddef>
#include <complex>
#include <vector>
#include <algorithm>

namespace refla {

typedef long double real;

// Own complex type: plain formulas (no inf/nan recovery library calls), so the
// arithmetic is exactly what is written here.
struct C {
    real re, im;
    C() : re(0), im(0) {}
    C(real r) : re(r), im(0) {}
    C(real r, real i) : re(r), im(i) {}
    C(const std::complex<double> &z) : re(z.real()), im(z.imag()) {}
    C &operator+=(const C &o) { re += o.re; im += o.im; return *this; }
    C &operator-=(const C &o) { re -= o.re; im -= o.im; return *this; }
    C &operator*=(const C &o) { real r = re * o.re - im * o.im; im = re * o.im + im * o.re; re = r; return *this; }
    C &operator/=(const C &o) { *this = *this / o; return *this; }
    friend C operator+(C a, const C &b) { a += b; return a; }
    friend C operator-(C a, const C &b) { a -= b; return a; }
    friend C operator*(C a, const C &b) { a *= b; return a; }
    friend C operator-(const C &a) { return C(-a.re, -a.im); }
    // Smith's algorithm: no spurious overflow / underflow
    friend C operator/(const C &a, const C &b) {
        if (fabsl(b.re) >= fabsl(b.im)) {
            real r = b.im / b.re, d = b.re + b.im * r;
            return C((a.re + a.im * r) / d, (a.im - a.re * r) / d);
        } else {
            real r = b.re / b.im, d = b.re * r + b.im;
            return C((a.re * r + a.im) / d, (a.im * r - a.re) / d);
        }
    }
};
static inline C conj(const C &z) { return C(z.re, -z.im); }
static inline real abs(const C &z) { return hypotl(z.re, z.im); }
static inline real abs1(const C &z) { return fabsl(z.re) + fabsl(z.im); }
static inline bool finite(const C &z) { return std::isfinite(z.re) && std::isfinite(z.im); }
static inline std::complex<double> todouble(const C &z) { return std::complex<double>((double)z.re, (double)z.im); }

struct Mat {
    int r = 0, c = 0;
    std::vector<C> a;
    Mat() {}
    Mat(int r_, int c_) : r(r_), c(c_), a((size_t)r_ * c_) {}
    C &operator()(int i, int j) { return a[(size_t)i * c + j]; }
    const C &operator()(int i, int j) const { return a[(size_t)i * c + j]; }
    static Mat identity(int n) { Mat m(n, n); for (int i = 0; i < n; i++) m(i, i) = C(1); return m; }
    bool all_finite() const { for (auto &z : a) if (!finite(z)) return false; return true; }
};

static inline Mat mul(const Mat &x, const Mat &y) {
    Mat z(x.r, y.c);
    for (int i = 0; i < x.r; i++)
        for (int k = 0; k < x.c; k++) {
            C f = x(i, k);
            if (f.re == 0 && f.im == 0) continue;
            for (int j = 0; j < y.c; j++) z(i, j) += f * y(k, j);
        }
    return z;
}
static inline Mat sub(const Mat &x, const Mat &y) { Mat z = x; for (size_t i = 0; i < z.a.size(); i++) z.a[i] -= y.a[i]; return z; }
static inline Mat add(const Mat &x, const Mat &y) { Mat z = x; for (size_t i = 0; i < z.a.size(); i++) z.a[i] += y.a[i]; return z; }
static inline Mat transpose(const Mat &x) { Mat z(x.c, x.r); for (int i = 0; i < x.r; i++) for (int j = 0; j < x.c; j++) z(j, i) = x(i, j); return z; }
static inline Mat adjoint(const Mat &x) { Mat z(x.c, x.r); for (int i = 0; i < x.r; i++) for (int j = 0; j < x.c; j++) z(j, i) = conj(x(i, j)); return z; }
// stack [x; y] (same number of columns)
static inline Mat vstack(const Mat &x, const Mat &y) {
    Mat z(x.r + y.r, x.c);
    std::copy(x.a.begin(), x.a.end(), z.a.begin());
    std::copy(y.a.begin(), y.a.end(), z.a.begin() + x.a.size());
    return z;
}
static inline real norm_inf(const Mat &x) {
    real m = 0;
    for (int i = 0; i < x.r; i++) { real s = 0; for (int j = 0; j < x.c; j++) s += abs(x(i, j)); if (!(s <= m)) m = s; }
    return m;
}
static inline real norm_max(const Mat &x) { real m = 0; for (auto &z : x.a) { real t = abs(z); if (!(t <= m)) m = t; } return m; }
static inline real norm_fro(const Mat &x) { real s = 0; for (auto &z : x.a) s += z.re * z.re + z.im * z.im; return sqrtl(s); }

// ---- Gaussian elimination with complete pivoting --------------------------------------------
// Reduces A (r x c) in place to echelon form: after k steps the leading k x k block is upper
// triangular in the permuted ordering.  Elimination stops when the largest remaining entry is
// <= rel_tol * (largest entry of the original matrix): that count is the numerical rank.
struct Gecp {
    Mat lu;                     // reduced matrix (multipliers are not kept; rhs is carried along)
    Mat rhs;                    // transformed right-hand side (r x nrhs)
    std::vector<int> colperm;   // colperm[k] = original column sitting at position k
    int rank = 0;
    real first_pivot = 0, last_pivot = 0;   // |pivot| of step 0 and of step rank-1
};

static inline Gecp gecp(const Mat &A, const Mat &B, real rel_tol) {
    Gecp g;
    g.lu = A; g.rhs = B;
    int r = A.r, c = A.c, nb = B.c;
    g.colperm.resize(c);
    for (int j = 0; j < c; j++) g.colperm[j] = j;
    real scale = norm_max(A);
    int steps = std::min(r, c);
    for (int k = 0; k < steps; k++) {
        int pi = -1, pj = -1; real best = 0;
        for (int i = k; i < r; i++)
            for (int j = k; j < c; j++) { real t = abs(g.lu(i, j)); if (t > best) { best = t; pi = i; pj = j; } }
        if (pi < 0 || !(best > rel_tol * scale) || !std::isfinite(best)) break;
        if (pi != k) {
            for (int j = 0; j < c; j++) std::swap(g.lu(k, j), g.lu(pi, j));
            for (int j = 0; j < nb; j++) std::swap(g.rhs(k, j), g.rhs(pi, j));
        }
        if (pj != k) {
            for (int i = 0; i < r; i++) std::swap(g.lu(i, k), g.lu(i, pj));
            std::swap(g.colperm[k], g.colperm[pj]);
        }
        if (k == 0) g.first_pivot = best;
        g.last_pivot = best;
        C p = g.lu(k, k);
        for (int i = k + 1; i < r; i++) {
            C f = g.lu(i, k) / p;
            if (f.re == 0 && f.im == 0) continue;
            g.lu(i, k) = C(0);
            for (int j = k + 1; j < c; j++) g.lu(i, j) -= f * g.lu(k, j);
            for (int j = 0; j < nb; j++) g.rhs(i, j) -= f * g.rhs(k, j);
        }
        g.rank = k + 1;
    }
    return g;
}

static inline int rank(const Mat &A, real rel_tol = 1e-12L) { return gecp(A, Mat(A.r, 0), rel_tol).rank; }

// Solve A X = B for square non-singular A.  ok=false if A is numerically singular.
static inline Mat solve(const Mat &A, const Mat &B, bool *ok = nullptr, real rel_tol = 1e-17L) {
    int n = A.r;
    Mat X(A.c, B.c);
    if (A.r != A.c || B.r != n) { if (ok) *ok = false; return X; }
    if (n == 0) { if (ok) *ok = true; return X; }
    Gecp g = gecp(A, B, rel_tol);
    if (g.rank < n) { if (ok) *ok = false; return X; }
    Mat Y(n, B.c);
    for (int j = 0; j < B.c; j++)
        for (int i = n - 1; i >= 0; i--) {
            C s = g.rhs(i, j);
            for (int k = i + 1; k < n; k++) s -= g.lu(i, k) * Y(k, j);
            Y(i, j) = s / g.lu(i, i);
        }
    for (int k = 0; k < n; k++) for (int j = 0; j < B.c; j++) X(g.colperm[k], j) = Y(k, j);
    bool fin = X.all_finite();
    if (ok) *ok = fin;
    return X;
}
static inline Mat inverse(const Mat &A, bool *ok = nullptr) { return solve(A, Mat::identity(A.r), ok); }
// X A = B  (right division)
static inline Mat rsolve(const Mat &B, const Mat &A, bool *ok = nullptr) { return transpose(solve(transpose(A), transpose(B), ok)); }

// Basis of the null space of A (r x c): c x (c - rank) matrix N with A N = 0, columns in
// "free variable = unit vector" form.  rank_out receives the numerical rank.
static inline Mat nullspace(const Mat &A, real rel_tol = 1e-12L, int *rank_out = nullptr) {
    Gecp g = gecp(A, Mat(A.r, 0), rel_tol);
    int c = A.c, k = g.rank, nf = c - k;
    if (rank_out) *rank_out = k;
    Mat N(c, nf);
    for (int f = 0; f < nf; f++) {
        // free variable at permuted position k+f is 1; solve the k x k triangular system for the pivots
        std::vector<C> y(c);
        y[k + f] = C(1);
        for (int i = k - 1; i >= 0; i--) {
            C s = -g.lu(i, k + f);
            for (int j = i + 1; j < k; j++) s -= g.lu(i, j) * y[j];
            y[i] = s / g.lu(i, i);
        }
        for (int p = 0; p < c; p++) N(g.colperm[p], f) = y[p];
    }
    return N;
}

// kappa_inf(A) = ||A|| ||A^-1||; +inf when singular
static inline real cond_inf(const Mat &A) {
    if (A.r != A.c) return INFINITY;
    if (A.r == 0) return 1;
    bool ok; Mat Ai = inverse(A, &ok);
    if (!ok) return INFINITY;
    return norm_inf(A) * norm_inf(Ai);
}
// row-equilibrated condition number kappa_inf(R^-1 A), R = diag(max abs of each row)
static inline real cond_inf_rowscaled(const Mat &A) {
    Mat S = A;
    for (int i = 0; i < S.r; i++) {
        real m = 0; for (int j = 0; j < S.c; j++) m = std::max(m, abs(S(i, j)));
        if (m == 0) return INFINITY;
        for (int j = 0; j < S.c; j++) S(i, j) = S(i, j) / C(m);
    }
    return cond_inf(S);
}

// Householder least squares: minimise ||A x - b||_2 column by column (A is m x n, m >= n, full
// column rank).  ok=false when a column is numerically dependent.
static inline Mat lstsq(const Mat &A, const Mat &B, bool *ok = nullptr) {
    int m = A.r, n = A.c, nb = B.c;
    Mat R = A, Q = B, X(n, nb);
    bool good = m >= n && B.r == m;
    real scale = norm_max(A);
    for (int k = 0; k < n && good; k++) {
        real nrm = 0; for (int i = k; i < m; i++) nrm += R(i, k).re * R(i, k).re + R(i, k).im * R(i, k).im;
        nrm = sqrtl(nrm);
        if (!(nrm > 1e-17L * scale)) { good = false; break; }
        // v = x + e^{i arg x_k} ||x|| e_k
        C xk = R(k, k); real ak = abs(xk);
        C phase = ak == 0 ? C(1) : xk / C(ak);
        std::vector<C> v(m);
        for (int i = k; i < m; i++) v[i] = R(i, k);
        v[k] += phase * C(nrm);
        real vv = 0; for (int i = k; i < m; i++) vv += v[i].re * v[i].re + v[i].im * v[i].im;
        if (vv == 0) continue;
        auto reflect = [&](Mat &M, int j0) {
            for (int j = j0; j < M.c; j++) {
                C s; for (int i = k; i < m; i++) s += conj(v[i]) * M(i, j);
                s = s * C(2 / vv);
                for (int i = k; i < m; i++) M(i, j) -= v[i] * s;
            }
        };
        reflect(R, k); reflect(Q, 0);
    }
    if (good)
        for (int j = 0; j < nb; j++)
            for (int i = n - 1; i >= 0; i--) {
                C s = Q(i, j);
                for (int k = i + 1; k < n; k++) s -= R(i, k) * X(k, j);
                X(i, j) = s / R(i, i);
            }
    if (good && !X.all_finite()) good = false;
    if (ok) *ok = good;
    return X;
}

// ---- self-test against identities (A A^-1 = I, A N = 0, normal equations) --------------------
// Returns the empty string on success, a description of the first failed identity otherwise.
static inline const char *selftest() {
    unsigned long long s = 12345;
    auto rnd = [&]() { s = s * 6364136223846793005ULL + 1442695040888963407ULL; return (real)((s >> 11) & 0xFFFFFFFFFFFFFULL) / (real)0x10000000000000ULL * 2 - 1; };
    for (int n = 1; n <= 8; n++) {
        Mat A(n, n); for (auto &z : A.a) z = C(rnd(), rnd());
        bool ok; Mat Ai = inverse(A, &ok);
        if (!ok) return "inverse of a random matrix reported singular";
        if (norm_max(sub(mul(A, Ai), Mat::identity(n))) > 1e-14L) return "A * inverse(A) != I";
        if (norm_max(sub(mul(Ai, A), Mat::identity(n))) > 1e-14L) return "inverse(A) * A != I";
        if (rank(A) != n) return "rank of a random square matrix";
        // rank-deficient: n x 2n constraint has an n-dimensional null space
        Mat R(n, 2 * n); for (auto &z : R.a) z = C(rnd(), rnd());
        int rk; Mat N = nullspace(R, 1e-12L, &rk);
        if (rk != n || N.c != n) return "null space dimension of an n x 2n matrix";
        if (norm_max(mul(R, N)) > 1e-14L) return "R * nullspace(R) != 0";
        if (rank(N) != n) return "null space basis is not independent";
        // product of (n x k)(k x n), k < n has rank k
        if (n >= 2) {
            Mat P(n, n - 1), Q2(n - 1, n); for (auto &z : P.a) z = C(rnd(), rnd()); for (auto &z : Q2.a) z = C(rnd(), rnd());
            if (rank(mul(P, Q2), 1e-13L) != n - 1) return "rank of a rank-deficient product";
            if (std::isfinite((double)cond_inf(mul(P, Q2))) && cond_inf(mul(P, Q2)) < 1e12L) return "condition number of a singular matrix is small";
        }
        // least squares: residual orthogonal to the columns
        Mat T(n + 3, n), b(n + 3, 2); for (auto &z : T.a) z = C(rnd(), rnd()); for (auto &z : b.a) z = C(rnd(), rnd());
        Mat x = lstsq(T, b, &ok);
        if (!ok) return "lstsq reported dependence on a random matrix";
        if (norm_max(mul(adjoint(T), sub(mul(T, x), b))) > 1e-14L) return "lstsq residual is not orthogonal to range(A)";
        Mat xs = lstsq(A, mul(A, Ai), &ok);
        if (!ok || norm_max(sub(xs, Ai)) > 1e-13L * (1 + norm_max(Ai)) * cond_inf(A)) return "lstsq on a square system differs from solve";
    }
    // condition number of diag(1, 1e-6) is 1e6; row scaling removes it
    Mat D(2, 2); D(0, 0) = C(1); D(1, 1) = C(1e-6L);
    if (fabsl(cond_inf(D) - 1e6L) > 1e-3L) return "cond_inf(diag(1,1e-6))";
    if (fabsl(cond_inf_rowscaled(D) - 1) > 1e-12L) return "cond_inf_rowscaled(diag(1,1e-6))";
    // complex division
    C q = C(3, 4) / C(1, -2);
    if (abs(q - C(-1, 2)) > 1e-18L) return "complex division";
    return "";
}

} // namespace refla
