// calverify.hpp -- C01 clause (iii): the error terms written by vnacal_save (read back with the
// independent yaml-cpp reader of calfile.hpp) must satisfy the documented M/S matrix equation of
// vnacal_layout.h for the TRUE full S and TRUE M of every standard that was added:
//   T types:   Ts S + Ti = M' Tx S + M' Tm          (M' = M minus the off-diagonal leakage El for TE10)
//   U types:   Um M' + Ui = S (Ux M' + Us)          (UE10: M' = M - El)
//   UE14:      per driving column j the U equation with that column's diagonal Um, Ux and scalar ui, us
//   E12:       M(:,j) = El(:,j) + Er_j (I - S Em_j)^-1 S e_j
#pragma once
#include "calfile.hpp"
#include "calscen.hpp"
#include <unistd.h>
#include <fstream>
#include <sstream>

namespace cs {

static inline const calfile::Block *find_block(const calfile::Freq &fr, const char *name) {
    for (auto &b : fr.blocks) if (b.name == name) return &b;
    return nullptr;
}
// block -> Mat(rows x cols) according to its kind; VEC becomes a (rr x cc) "diagonal" matrix
static inline Mat block_diag(const calfile::Block &b, int rr, int cc) { Mat m(rr, cc); for (int i = 0; i < (int)b.v.size() && i < rr && i < cc; i++) m(i, i) = C(b.v[i].real(), b.v[i].imag()); return m; }
static inline Mat block_mat(const calfile::Block &b) {
    Mat m(b.rows, b.cols); size_t k = 0;
    for (int i = 0; i < b.rows; i++) for (int j = 0; j < b.cols; j++) {
        if (b.kind == calfile::MAT_NODIAG && i == j) continue;
        m(i, j) = C(b.v[k].real(), b.v[k].imag()); k++;
    }
    return m;
}
static inline long double maxabs(const Mat &A) { long double m = 0; for (auto &x : A.a) m = std::max(m, std::abs(x)); return m; }

// magnitude of the coefficients of one standard's equations: the equations multiply M and S, so for large values the
// product counts (used for the normwise measure; the per-standard measure keeps its calibrated max(1, |S|, |M|))
static inline long double cscale(const Mat &S, const Mat &M, bool normwise) { long double a = maxabs(S), b = maxabs(M); return normwise ? std::max({1.0L, a, b, a * b}) : std::max({1.0L, a, b}); }

// returns the largest relative residual over all standards at frequency index f; why = text on structural problems
// normwise = true: largest residual of any standard over the largest scale of any standard (normwise backward error
// of the whole system) instead of the largest per-standard ratio
static inline long double saved_terms_residual(const Scenario &sc, const calfile::Cal &cal, int f, std::string &why, bool normwise = false) {
    const calfile::Freq &fr = cal.data[f];
    int r = sc.r, c = sc.c, P = sc.P;
    long double worst = 0, worst_res = 0, worst_scale = 1e-300L;
    auto need = [&](const char *n) -> const calfile::Block * { const calfile::Block *b = find_block(fr, n); if (!b) why = std::string("block '") + n + "' missing"; return b; };
    for (size_t s = 0; s < sc.stds.size(); s++) {
        const Mat &S = sc.stds[s].Sfull[f];
        Mat M; if (!sc.box[f].measure(S, M)) { why = "model singular"; return INFINITY; }
        long double res = 0, scale = 1e-300L;
        if (vm::is_T(sc.type)) {
            const calfile::Block *ts = need("ts"), *ti = need("ti"), *tx = need("tx"), *tm = need("tm"); if (!ts || !ti || !tx || !tm) return INFINITY;
            bool full = sc.type == vm::T16;
            Mat Ts = full ? block_mat(*ts) : block_diag(*ts, r, P), Ti = full ? block_mat(*ti) : block_diag(*ti, r, P);
            Mat Tx = full ? block_mat(*tx) : block_diag(*tx, c, P), Tm = full ? block_mat(*tm) : block_diag(*tm, c, P);
            Mat Mp = M;
            if (sc.type == vm::TE10) { const calfile::Block *el = need("el"); if (!el) return INFINITY; Mat El = block_mat(*el); for (int i = 0; i < r; i++) for (int j = 0; j < c; j++) if (i != j) Mp(i, j) -= El(i, j); }
            Mat L = vm::add(vm::mul(Ts, S), Ti), R = vm::add(vm::mul(vm::mul(Mp, Tx), S), vm::mul(Mp, Tm));
            res = maxabs(vm::add(L, R, -1)); scale = std::max({maxabs(Ts), maxabs(Ti), maxabs(Tx), maxabs(Tm)}) * cscale(S, M, normwise);
        } else if (sc.type == vm::U8 || sc.type == vm::UE10 || sc.type == vm::U16) {
            const calfile::Block *um = need("um"), *ui = need("ui"), *ux = need("ux"), *us = need("us"); if (!um || !ui || !ux || !us) return INFINITY;
            bool full = sc.type == vm::U16;
            Mat Um = full ? block_mat(*um) : block_diag(*um, P, r), Ui = full ? block_mat(*ui) : block_diag(*ui, P, c);
            Mat Ux = full ? block_mat(*ux) : block_diag(*ux, P, r), Us = full ? block_mat(*us) : block_diag(*us, P, c);
            Mat Mp = M;
            if (sc.type == vm::UE10) { const calfile::Block *el = need("el"); if (!el) return INFINITY; Mat El = block_mat(*el); for (int i = 0; i < r; i++) for (int j = 0; j < c; j++) if (i != j) Mp(i, j) -= El(i, j); }
            Mat L = vm::add(vm::mul(Um, Mp), Ui), R = vm::mul(S, vm::add(vm::mul(Ux, Mp), Us));
            res = maxabs(vm::add(L, R, -1)); scale = std::max({maxabs(Um), maxabs(Ui), maxabs(Ux), maxabs(Us)}) * cscale(S, M, normwise);
        } else if (sc.type == vm::UE14) {
            const calfile::Block *um = need("um"), *ui = need("ui"), *ux = need("ux"), *us = need("us"), *el = need("el"); if (!um || !ui || !ux || !us || !el) return INFINITY;
            Mat UM = block_mat(*um), UI = block_mat(*ui), UX = block_mat(*ux), US = block_mat(*us), El = block_mat(*el);
            for (int j = 0; j < c; j++) {
                Mat m(r, 1); for (int i = 0; i < r; i++) m(i, 0) = M(i, j) - (i != j ? El(i, j) : C(0, 0));
                Mat Umj(P, r), Uxj(P, r), ui(P, 1), us(P, 1);
                for (int i = 0; i < r; i++) { Umj(i, i) = UM(i, j); Uxj(i, i) = UX(i, j); }
                ui(j, 0) = UI(0, j); us(j, 0) = US(0, j);
                Mat L = vm::add(vm::mul(Umj, m), ui), R = vm::mul(S, vm::add(vm::mul(Uxj, m), us));
                res = std::max(res, maxabs(vm::add(L, R, -1))); scale = std::max(scale, std::max({maxabs(Umj), maxabs(ui), maxabs(Uxj), maxabs(us)}) * cscale(S, M, normwise));
            }
        } else {    // E12
            const calfile::Block *el = need("el"), *er = need("er"), *em = need("em"); if (!el || !er || !em) return INFINITY;
            Mat El = block_mat(*el), Er = block_mat(*er), Em = block_mat(*em);
            for (int j = 0; j < c; j++) {
                Mat Emj(P, P); for (int i = 0; i < r; i++) Emj(i, i) = Em(i, j);
                Mat A = vm::add(Mat::eye(P), vm::mul(S, Emj), -1), rhs(P, 1), X;
                for (int i = 0; i < P; i++) rhs(i, 0) = S(i, j);
                if (!vm::solve(A, rhs, X)) { why = "(I - S Em) singular for the saved terms"; return INFINITY; }
                for (int i = 0; i < r; i++) { C pred = El(i, j) + Er(i, j) * X(i, 0); res = std::max(res, std::abs(pred - M(i, j))); scale = std::max({scale, std::abs(pred), std::abs(M(i, j)), std::abs(Er(i, j)), std::abs(El(i, j))}); }
            }
        }
        if (getenv("CALV_DEBUG")) fprintf(stderr, "CALV std %zu res %.3Lg scale %.3Lg\n", s, res, scale);
        worst = std::max(worst, res / scale); worst_res = std::max(worst_res, res); worst_scale = std::max(worst_scale, scale);
    }
    return normwise ? worst_res / worst_scale : worst;
}

// vnacal_save to a temp file (data precision forced to the maximum) and parse it independently
static inline bool save_and_read(pbt::Ctx &c, vnacal_t *vcp, calfile::File &out, std::string &err) {
    const char *td = getenv("PBT_TMPDIR"); if (!td) td = "/tmp";
    char path[512]; snprintf(path, sizeof path, "%s/c01-%d.vnacal", td, (int)getpid());
    if (vnacal_set_dprecision(vcp, VNACAL_MAX_PRECISION) != 0) { err = "vnacal_set_dprecision(MAX) failed"; return false; }
    if (vnacal_save(vcp, path) != 0) { err = "vnacal_save failed"; unlink(path); return false; }
    std::ifstream in(path); std::stringstream ss; ss << in.rdbuf(); unlink(path);
    (void)c;
    return calfile::read(ss.str(), out, err);
}

} // namespace cs
