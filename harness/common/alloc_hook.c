/*
 * alloc_hook.c -- counting / failing allocator wrappers for property C12.
 * Linked into the harness only (compiled WITHOUT -include alloc_hook.h, so the
 * names malloc/calloc/... below are the real, ASan-intercepted functions).
 * See alloc_hook.h.
 */
#define _GNU_SOURCE
#define VERIF_FI_HARNESS 1
#include "alloc_hook.h"
#include <errno.h>

#define MAX_SITES 1024

struct site {
    const char *file;
    int line;
    const char *func;
    long calls;
    long failed;
};

static long g_count;            /* libvna allocations since reset */
static long g_target = -1;      /* index to fail, -1: disarmed */
static int g_fired;
static int g_pause;
static const char *g_fired_file = "";
static int g_fired_line;
static const char *g_fired_func = "";
static struct site g_sites[MAX_SITES];
static int g_nsites;

static struct site *find_site(const char *file, int line, const char *func)
{
    for (int i = 0; i < g_nsites; ++i) {
	if (g_sites[i].line == line && (g_sites[i].file == file || strcmp(g_sites[i].file, file) == 0)) {
	    return &g_sites[i];
	}
    }
    if (g_nsites < MAX_SITES) {
	struct site *sp = &g_sites[g_nsites++];
	sp->file = file;
	sp->line = line;
	sp->func = func;
	sp->calls = 0;
	sp->failed = 0;
	return sp;
    }
    return NULL;
}

/*
 * should_fail: account for one allocation request; return 1 if it must fail
 */
static int should_fail(const char *file, int line, const char *func)
{
    struct site *sp;
    long index;

    if (g_pause > 0) {
	return 0;
    }
    sp = find_site(file, line, func);
    if (sp != NULL) {
	++sp->calls;
    }
    index = g_count++;
    if (g_target >= 0 && index == g_target) {
	g_target = -1;
	g_fired = 1;
	g_fired_file = file;
	g_fired_line = line;
	g_fired_func = func;
	if (sp != NULL) {
	    ++sp->failed;
	}
	return 1;
    }
    return 0;
}

void *verif_malloc(size_t size, const char *file, int line)
{
    if (should_fail(file, line, "malloc")) {
	errno = ENOMEM;
	return NULL;
    }
    return malloc(size);
}

void *verif_calloc(size_t nmemb, size_t size, const char *file, int line)
{
    if (should_fail(file, line, "calloc")) {
	errno = ENOMEM;
	return NULL;
    }
    return calloc(nmemb, size);
}

void *verif_realloc(void *ptr, size_t size, const char *file, int line)
{
    /* realloc(p, 0) with p != NULL is a free, not an allocation request */
    if (!(ptr != NULL && size == 0) && should_fail(file, line, "realloc")) {
	errno = ENOMEM;
	return NULL;		/* the original block stays valid */
    }
    return realloc(ptr, size);
}

char *verif_strdup(const char *s, const char *file, int line)
{
    if (should_fail(file, line, "strdup")) {
	errno = ENOMEM;
	return NULL;
    }
    return strdup(s);
}

int verif_vasprintf(char **strp, const char *format, va_list ap, const char *file, int line)
{
    if (should_fail(file, line, "vasprintf")) {
	/* asprintf(3): "the contents of strp are undefined": left untouched */
	errno = ENOMEM;
	return -1;
    }
    return vasprintf(strp, format, ap);
}

void verif_fi_reset(void)
{
    g_count = 0;
    g_target = -1;
    g_fired = 0;
    g_fired_file = "";
    g_fired_line = 0;
    g_fired_func = "";
}

void verif_fi_arm(long k)
{
    g_target = g_count + k;
    g_fired = 0;
}

void verif_fi_disarm(void)
{
    g_target = -1;
}

long verif_fi_count(void)
{
    return g_count;
}

int verif_fi_fired(void)
{
    return g_fired;
}

const char *verif_fi_fired_file(void)
{
    return g_fired_file;
}

int verif_fi_fired_line(void)
{
    return g_fired_line;
}

const char *verif_fi_fired_func(void)
{
    return g_fired_func;
}

void verif_fi_pause(void)
{
    ++g_pause;
}

void verif_fi_resume(void)
{
    if (g_pause > 0) {
	--g_pause;
    }
}

int verif_fi_nsites(void)
{
    return g_nsites;
}

int verif_fi_site(int i, const char **file, int *line, const char **func, long *calls, long *failed)
{
    if (i < 0 || i >= g_nsites) {
	return -1;
    }
    if (file != NULL) *file = g_sites[i].file;
    if (line != NULL) *line = g_sites[i].line;
    if (func != NULL) *func = g_sites[i].func;
    if (calls != NULL) *calls = g_sites[i].calls;
    if (failed != NULL) *failed = g_sites[i].failed;
    return 0;
}
