// pbt_fuzz.cpp -- libFuzzer front end of the tape engine: the fuzzer's bytes are decoded into a tape
// and the harness' pbt_property() runs in replay mode, so coverage feedback steers the SAME generator
// and oracle that the random and exhaustive modes use.
//
// Byte encoding of a tape value: one byte b < 0xFF is the value b; 0xFF is followed by 8 little-endian
// bytes.  Ctx::draw() clamps every value into its arity, so any byte string is a valid tape.
// On an oracle failure the tape is written as a replay file to $PBT_FUZZ_REPLAY (if set) and the
// process traps, which makes libFuzzer keep the input as a crash artifact; sanitizer reports do the same.
// bin/check converts artifacts to replay files (same decoding) and confirms / shrinks them with the
// ordinary asan harness.
#include "pbt.hpp"
#include <sys/mman.h>
#include <exception>

using namespace pbt;

extern "C" int __lsan_do_recoverable_leak_check(void) __attribute__((weak));
extern "C" size_t __sanitizer_get_current_allocated_bytes(void) __attribute__((weak));
__attribute__((weak)) void pbt_global_setup() {}
__attribute__((weak)) void pbt_extra_json(FILE *) {}

static Shared *g_sh;
static unsigned long long g_runs, g_nontrivial;

static void decode(const uint8_t *d, size_t n, std::vector<uint64_t> &tape) {
    for (size_t i = 0; i < n;) {
        if (d[i] != 0xFF) { tape.push_back(d[i]); i++; continue; }
        uint64_t v = 0; size_t k = 0;
        for (; k < 8 && i + 1 + k < n; k++) v |= (uint64_t)d[i + 1 + k] << (8 * k);
        tape.push_back(v); i += 9;
    }
}

static void write_replay(const std::vector<uint64_t> &tape, size_t used, int size, const Fail &f) {
    const char *p = getenv("PBT_FUZZ_REPLAY");
    if (!p) return;
    FILE *fp = fopen(p, "w");
    if (!fp) return;
    fprintf(fp, "# libvna-verif replay file (tape engine, found by libFuzzer)\nproperty: %s\ncode: %s\nsize: %d\nexhaustive: 0\ntape:", PBT_PROPERTY, f.code.c_str(), size);
    for (size_t i = 0; i < used && i < tape.size(); i++) fprintf(fp, " %llu", (unsigned long long)tape[i]);
    fprintf(fp, "\n# --- message ---\n# %s\n", f.msg.c_str());
    fclose(fp);
}

extern "C" int LLVMFuzzerInitialize(int *, char ***) {
    g_sh = (Shared *)mmap(nullptr, sizeof(Shared), PROT_READ | PROT_WRITE, MAP_PRIVATE | MAP_ANONYMOUS, -1, 0);
    pbt_global_setup();
    return 0;
}

extern "C" int LLVMFuzzerTestOneInput(const uint8_t *data, size_t size) {
    if (size < 2) return 0;
    Ctx c; c.sh = g_sh; c.replay = true;
    c.size = data[0] % 101;                  // first byte: size parameter
    decode(data + 1, size - 1, c.in);
    g_sh->tape_len = 0; g_sh->nmarks = 0;
    size_t before = __sanitizer_get_current_allocated_bytes ? __sanitizer_get_current_allocated_bytes() : 0;
    try {
        pbt_property(c);
    } catch (const Fail &f) {
        fprintf(stderr, "PBT-FUZZ-FAIL property=%s code=%s msg=%s\n", PBT_PROPERTY, f.code.c_str(), f.msg.c_str());
        write_replay(c.in, c.pos, c.size, f);
        __builtin_trap();
    }
    size_t after = __sanitizer_get_current_allocated_bytes ? __sanitizer_get_current_allocated_bytes() : 0;
    if (after > before && __lsan_do_recoverable_leak_check && __lsan_do_recoverable_leak_check() != 0) {
        Fail f{"lsan.leak", "LeakSanitizer reported a leak after the case"};
        fprintf(stderr, "PBT-FUZZ-FAIL property=%s code=lsan.leak\n", PBT_PROPERTY);
        write_replay(c.in, c.pos, c.size, f);
        __builtin_trap();
    }
    g_runs++; if (c.is_nontrivial) g_nontrivial++;
    return c.overrun && c.pos == 0 ? -1 : 0;
}
