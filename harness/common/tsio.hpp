// tsio.hpp -- independent reader and writer for Touchstone 1.x, Touchstone 2.0 and NPD files.
//
// Written for the verification harness from the format descriptions (Touchstone: option line,
// [keyword] framing, data layout rules; NPD: "#:key" header, "# field N:" key block, columns).
// Shares no code with libvna.  The Touchstone 2 dialect is the one the library writes and accepts
// ("[Two-Port Order]", see DESIGN.md section 8).
//
// Reader:  Parsed p = tsio::read_touchstone(text) / tsio::read_npd(text)
//          kind/version, option line, ports, frequencies, z0 (per port or per frequency), the
//          declared parameter and encoding of every column group and every number as a token
//          (text, value, number of printed decimals, hex flag).
// Writer:  tsio::write_touchstone(truth, style, chooser) / tsio::write_npd(...): the same data in
//          any of the equivalent spellings; every micro decision is drawn from a Chooser so that a
//          PBT case stays a pure function of its tape (draw 0 = plainest spelling).
#pragma once
#include <complex>
#include <string>
#include <vector>
#include <cmath>
#include <cstdio>
#include <cstdlib>
#include <cstring>
#include <cctype>
#include <cstdint>
#include "tsconv.hpp"

namespace tsio {

typedef long double ld;
typedef std::complex<double> cd;
typedef std::complex<ld> cl;
using namespace tsconv;

enum Kind { K_NONE = 0, K_TS1, K_TS2, K_NPD };
static inline const char *kind_name(int k) { static const char *n[] = {"none", "touchstone1", "touchstone2", "npd"}; return (k >= 0 && k <= 3) ? n[k] : "?"; }
static inline const char *fmt_name(int f) { static const char *n[] = {"dB", "ma", "ri", "PRC", "PRL", "SRC", "SRL", "IL", "RL", "VSWR"}; return (f >= 0 && f <= 9) ? n[f] : "?"; }

// ------------------------------------------------------------------------------------ tokens ---
struct Tok {
    std::string text;
    double val = 0;
    bool ok = false;        // parsed completely as a number
    bool hex = false;       // hexadecimal floating point
    int decimals = -1;      // digits after the decimal point of a decimal token (0 if none)
    int line = 0;
    bool first_on_line = false;
};

static inline std::string upper(std::string s) { for (auto &ch : s) ch = (char)toupper((unsigned char)ch); return s; }
static inline std::string lower(std::string s) { for (auto &ch : s) ch = (char)tolower((unsigned char)ch); return s; }

static inline Tok parse_number(const std::string &t, int line = 0) {
    Tok k; k.text = t; k.line = line;
    if (t.empty()) return k;
    char *end = nullptr;
    k.val = strtod(t.c_str(), &end);
    k.ok = end && end != t.c_str() && *end == 0;
    std::string u = upper(t);
    k.hex = u.find('X') != std::string::npos;
    if (k.ok && !k.hex) {
        size_t dot = t.find('.');
        size_t e = u.find('E');
        if (u.find("INF") != std::string::npos || u.find("NAN") != std::string::npos) k.decimals = -1;
        else if (dot == std::string::npos) k.decimals = 0;
        else { size_t stop = e == std::string::npos ? t.size() : e; k.decimals = (int)(stop - dot - 1); }
    }
    return k;
}

static inline std::vector<std::string> split_ws(const std::string &s) {
    std::vector<std::string> out; size_t i = 0;
    while (i < s.size()) {
        while (i < s.size() && isspace((unsigned char)s[i])) i++;
        size_t j = i;
        while (j < s.size() && !isspace((unsigned char)s[j])) j++;
        if (j > i) out.push_back(s.substr(i, j - i));
        i = j;
    }
    return out;
}
static inline std::vector<std::string> split_lines(const std::string &text) {
    std::vector<std::string> out; std::string cur;
    for (char ch : text) { if (ch == '\n') { out.push_back(cur); cur.clear(); } else cur += ch; }
    if (!cur.empty()) out.push_back(cur);
    for (auto &l : out) while (!l.empty() && l.back() == '\r') l.pop_back();
    return out;
}

// ------------------------------------------------------------------------------------ parsed ---
struct Group {
    int param = P_UNDEF;    // P_S ... P_ZIN
    int fmt = F_RI;         // F_*
    int col0 = 0;           // first column inside Parsed::cols[f]
    int ncols = 0;
    std::string name;
};

struct Parsed {
    bool ok = false;
    std::string err;
    int kind = K_NONE;
    std::string version;
    int ports = -1;
    int nfreq_declared = -1;
    // Touchstone option line and keywords
    double unit_mult = 1e9;
    int ts_param = P_S;
    int ts_fmt = F_MA;
    Tok R;                       // text empty if defaulted
    double R_value = 50.0;
    bool order_21_12 = false;    // as stored in the file (v1 2-port: always)
    char matrix_format = 'F';
    bool has_reference = false;
    int noise_rows = 0;
    bool has_end = false;
    // z0
    bool per_freq_z0 = false;
    std::vector<Tok> z0re, z0im;             // per port (Touchstone: z0im empty)
    std::vector<std::vector<Tok>> fz0;       // [F][2*ports] when per_freq_z0
    // data
    std::vector<Tok> freq;                   // as written (Touchstone: before unit scaling)
    std::vector<Group> groups;
    std::vector<std::vector<Tok>> cols;      // [F][columns]; Touchstone: logical row-major (r,c) pairs
    // NPD extras
    int fprecision = -1, dprecision = -1;
    int field_keys = 0;                      // number of "# field N:" lines
    bool field_keys_sequential = true;
    int data_columns = 0;                    // columns per data line incl. frequency and z0 columns

    double frequency_hz(int i) const { return kind == K_NPD ? freq[i].val : freq[i].val * unit_mult; }
    const Group *find_group(int param, int fmt) const { for (auto &g : groups) if (g.param == param && g.fmt == fmt) return &g; return nullptr; }
};

static inline int group_columns(int param, int fmt, int ports) {
    if (fmt == F_IL) return ports * (ports - 1);
    if (fmt == F_RL || fmt == F_VSWR) return ports;
    if (param == P_ZIN) return 2 * ports;
    return 2 * ports * ports;
}

// parse one NPD / vnadata(3) format specifier; false if it is not one
static inline bool parse_specifier(const std::string &spec, int &param, int &fmt) {
    std::string u = upper(spec);
    param = P_UNDEF; fmt = F_RI;
    if (u == "IL") { param = P_S; fmt = F_IL; return true; }
    if (u == "RL") { param = P_S; fmt = F_RL; return true; }
    if (u == "VSWR") { param = P_S; fmt = F_VSWR; return true; }
    if (u == "PRC") { param = P_ZIN; fmt = F_PRC; return true; }
    if (u == "PRL") { param = P_ZIN; fmt = F_PRL; return true; }
    if (u == "SRC") { param = P_ZIN; fmt = F_SRC; return true; }
    if (u == "SRL") { param = P_ZIN; fmt = F_SRL; return true; }
    std::string rest;
    if (u.compare(0, 3, "ZIN") == 0) { param = P_ZIN; rest = u.substr(3); }
    else if (u == "RI" || u == "MA" || u == "DB") { rest = u; }
    else {
        static const char letters[] = "STUZYHGAB";
        static const int types[] = {P_S, P_T, P_U, P_Z, P_Y, P_H, P_G, P_A, P_B};
        const char *q = u.empty() ? nullptr : strchr(letters, u[0]);
        if (!q || !*q) return false;
        param = types[q - letters]; rest = u.substr(1);
    }
    if (rest.empty() || rest == "RI") fmt = F_RI;
    else if (rest == "MA") fmt = F_MA;
    else if (rest == "DB") { if (param == P_ZIN) return false; fmt = F_DB; }
    else return false;
    return true;
}

// ----------------------------------------------------------------------------- Touchstone in ---
namespace detail {
struct TsLine { int no; int kind; /* 0 data, 1 option, 2 keyword */ std::string kw; std::vector<std::string> args; };

static inline std::string squeeze(const std::string &s) {   // trim + single spaces + upper case
    std::string o; bool sp = false;
    for (char ch : s) { if (isspace((unsigned char)ch)) { sp = !o.empty(); } else { if (sp) o += ' '; sp = false; o += (char)toupper((unsigned char)ch); } }
    return o;
}
}

static inline Parsed read_touchstone(const std::string &text) {
    using detail::TsLine;
    Parsed p;
    auto fail = [&](const std::string &m, int line) { p.ok = false; p.err = "line " + std::to_string(line) + ": " + m; return p; };
    std::vector<TsLine> L;
    {
        auto raw = split_lines(text);
        for (size_t i = 0; i < raw.size(); i++) {
            std::string s = raw[i];
            size_t bang = s.find('!');
            if (bang != std::string::npos) s.erase(bang);
            size_t a = 0; while (a < s.size() && isspace((unsigned char)s[a])) a++;
            s.erase(0, a);
            while (!s.empty() && isspace((unsigned char)s.back())) s.pop_back();
            if (s.empty()) continue;
            TsLine l; l.no = (int)i + 1;
            if (s[0] == '[') {
                size_t close = s.find(']');
                if (close == std::string::npos) return fail("keyword without closing bracket", l.no);
                l.kind = 2; l.kw = detail::squeeze(s.substr(1, close - 1)); l.args = split_ws(s.substr(close + 1));
            } else if (s[0] == '#') { l.kind = 1; l.args = split_ws(s.substr(1)); }
            else { l.kind = 0; l.args = split_ws(s); }
            L.push_back(l);
        }
    }
    size_t li = 0;
    if (L.empty()) return fail("empty file", 0);
    int version = 1;
    if (L[li].kind == 2 && L[li].kw == "VERSION") {
        if (L[li].args.size() != 1) return fail("[Version] needs one argument", L[li].no);
        p.version = L[li].args[0];
        if (p.version == "2.0") version = 2; else return fail("unsupported version " + p.version, L[li].no);
        li++;
    }
    if (li >= L.size() || L[li].kind != 1) return fail("option line expected", li < L.size() ? L[li].no : 0);
    {   // option line: [unit] [parameter] [format] [R n] in any order, case-insensitive
        const TsLine &o = L[li];
        bool su = false, sp = false, sf = false, sr = false;
        for (size_t i = 0; i < o.args.size(); i++) {
            std::string u = upper(o.args[i]);
            if (u == "HZ" || u == "KHZ" || u == "MHZ" || u == "GHZ") { if (su) return fail("unit given twice", o.no); su = true; p.unit_mult = u == "HZ" ? 1 : u == "KHZ" ? 1e3 : u == "MHZ" ? 1e6 : 1e9; }
            else if (u == "S" || u == "Y" || u == "Z" || u == "H" || u == "G") { if (sp) return fail("parameter given twice", o.no); sp = true; p.ts_param = u == "S" ? P_S : u == "Y" ? P_Y : u == "Z" ? P_Z : u == "H" ? P_H : P_G; }
            else if (u == "DB" || u == "MA" || u == "RI") { if (sf) return fail("format given twice", o.no); sf = true; p.ts_fmt = u == "DB" ? F_DB : u == "MA" ? F_MA : F_RI; }
            else if (u == "R") {
                if (sr || i + 1 >= o.args.size()) return fail("bad R in option line", o.no);
                sr = true; p.R = parse_number(o.args[++i], o.no);
                if (!p.R.ok) return fail("R value is not a number", o.no);
                p.R_value = p.R.val;
            } else return fail("unknown option-line word " + o.args[i], o.no);
        }
        li++;
    }
    auto numbers_of = [&](const TsLine &l, std::vector<Tok> &out) -> bool {
        for (size_t i = 0; i < l.args.size(); i++) { Tok t = parse_number(l.args[i], l.no); t.first_on_line = (i == 0); if (!t.ok) return false; out.push_back(t); }
        return true;
    };
    p.groups.resize(1);
    p.groups[0].param = p.ts_param; p.groups[0].fmt = p.ts_fmt; p.groups[0].col0 = 0;
    p.groups[0].name = std::string(pname(p.ts_param)) + fmt_name(p.ts_fmt);

    if (version == 1) {
        p.kind = K_TS1;
        // every remaining line is a data line; the line structure is significant
        std::vector<std::vector<Tok>> rows;
        for (; li < L.size(); li++) {
            if (L[li].kind != 0) return fail("keyword or option line inside Touchstone 1 data", L[li].no);
            std::vector<Tok> r; if (!numbers_of(L[li], r)) return fail("not a number", L[li].no);
            rows.push_back(r);
        }
        if (rows.empty()) return fail("no data", 0);
        size_t c0 = rows[0].size();
        if (c0 < 3 || c0 % 2 == 0) return fail("first data line must hold a frequency and value pairs", rows[0][0].line);
        int n;
        if (c0 == 9) n = (rows.size() > 1 && rows[1].size() == 8) ? 4 : 2;
        else n = (int)(c0 - 1) / 2;
        if (n > 4) return fail("more than four pairs on a Touchstone 1 line", rows[0][0].line);
        if ((p.ts_param == P_H || p.ts_param == P_G) && n != 2) return fail("H/G need two ports", rows[0][0].line);
        p.ports = n;
        p.order_21_12 = (n == 2);
        size_t r = 0;
        bool noise = false;
        while (r < rows.size()) {
            if (!noise && n == 2 && rows[r].size() == 5) noise = true;
            if (noise) { if (rows[r].size() != 5) return fail("noise line must have 5 values", rows[r][0].line); p.noise_rows++; r++; continue; }
            size_t want = n == 2 ? 9 : (size_t)(1 + 2 * n);
            if (rows[r].size() != want) return fail("expected " + std::to_string(want) + " values on a frequency line, found " + std::to_string(rows[r].size()), rows[r][0].line);
            p.freq.push_back(rows[r][0]);
            std::vector<Tok> flat((size_t)2 * n * n);
            if (n <= 2) {
                // everything on the frequency line; a 2-port is stored 11 21 12 22
                static const int map2[4] = {0, 2, 1, 3};      // file pair k -> logical row-major cell
                for (int k = 0; k < n * n; k++) { int cell = n == 2 ? map2[k] : 0; flat[(size_t)2 * cell] = rows[r][1 + 2 * k]; flat[(size_t)2 * cell + 1] = rows[r][2 + 2 * k]; }
                r += 1;
            } else {
                for (int row = 0; row < n; row++) {
                    if (r + row >= rows.size()) return fail("matrix row missing", rows[r][0].line);
                    const std::vector<Tok> &src = rows[r + row];
                    size_t off = row == 0 ? 1 : 0;
                    if (src.size() != off + 2 * (size_t)n) return fail("expected " + std::to_string(2 * n) + " values on a matrix row line, found " + std::to_string(src.size() - off), src[0].line);
                    for (int col = 0; col < n; col++) { flat[(size_t)2 * (row * n + col)] = src[off + 2 * col]; flat[(size_t)2 * (row * n + col) + 1] = src[off + 2 * col + 1]; }
                }
                r += n;
            }
            p.cols.push_back(flat);
        }
        p.groups[0].ncols = 2 * n * n;
        for (int k = 0; k < n; k++) p.z0re.push_back(p.R.text.empty() ? parse_number("50") : p.R);
        p.ok = true;
        return p;
    }

    // ---- version 2 ----
    p.kind = K_TS2;
    int noise_declared = -1;
    bool order_seen = false;
    bool in_data = false;
    std::vector<Tok> ref;
    for (; li < L.size() && !in_data; li++) {
        const TsLine &l = L[li];
        if (l.kind != 2) return fail("keyword expected before [Network Data]", l.no);
        if (l.kw == "NUMBER OF PORTS") { if (l.args.size() != 1 || p.ports >= 0) return fail("bad [Number of Ports]", l.no); p.ports = atoi(l.args[0].c_str()); if (p.ports < 1) return fail("bad port count", l.no); }
        else if (l.kw == "TWO-PORT ORDER") { if (l.args.size() != 1) return fail("bad [Two-Port Order]", l.no); std::string a = upper(l.args[0]); if (a == "12_21") p.order_21_12 = false; else if (a == "21_12") p.order_21_12 = true; else return fail("bad two-port order", l.no); order_seen = true; }
        else if (l.kw == "NUMBER OF FREQUENCIES") { if (l.args.size() != 1) return fail("bad [Number of Frequencies]", l.no); p.nfreq_declared = atoi(l.args[0].c_str()); if (p.nfreq_declared < 1) return fail("bad frequency count", l.no); }
        else if (l.kw == "NUMBER OF NOISE FREQUENCIES") { if (l.args.size() != 1) return fail("bad [Number of Noise Frequencies]", l.no); noise_declared = atoi(l.args[0].c_str()); }
        else if (l.kw == "MATRIX FORMAT") { if (l.args.size() != 1) return fail("bad [Matrix Format]", l.no); std::string a = upper(l.args[0]); if (a == "FULL") p.matrix_format = 'F'; else if (a == "UPPER") p.matrix_format = 'U'; else if (a == "LOWER") p.matrix_format = 'L'; else return fail("bad matrix format", l.no); }
        else if (l.kw == "REFERENCE") {
            if (p.ports < 0) return fail("[Reference] before [Number of Ports]", l.no);
            p.has_reference = true;
            if (!numbers_of(l, ref)) return fail("bad [Reference] value", l.no);
            while ((int)ref.size() < p.ports && li + 1 < L.size() && L[li + 1].kind == 0) { li++; if (!numbers_of(L[li], ref)) return fail("bad [Reference] value", L[li].no); }
            if ((int)ref.size() != p.ports) return fail("[Reference] needs one value per port", l.no);
        }
        else if (l.kw == "NETWORK DATA") { if (!l.args.empty()) return fail("text after [Network Data]", l.no); in_data = true; }
        else return fail("unexpected keyword [" + l.kw + "]", l.no);
    }
    if (!in_data) return fail("[Network Data] missing", 0);
    if (p.ports < 0) return fail("[Number of Ports] missing", 0);
    if (p.nfreq_declared < 0) return fail("[Number of Frequencies] missing", 0);
    if (p.ports == 2 && !order_seen) return fail("[Two-Port Order] missing for a 2-port", 0);
    if (p.ports != 2 && order_seen) return fail("[Two-Port Order] given for a non-2-port", 0);
    if ((p.ts_param == P_H || p.ts_param == P_G) && p.ports != 2) return fail("H/G need two ports", 0);
    int n = p.ports;
    std::vector<Tok> flatnum;
    for (; li < L.size() && L[li].kind == 0; li++) if (!numbers_of(L[li], flatnum)) return fail("not a number", L[li].no);
    int pairs = p.matrix_format == 'F' ? n * n : n * (n + 1) / 2;
    if ((int)flatnum.size() != p.nfreq_declared * (1 + 2 * pairs)) return fail("expected " + std::to_string(p.nfreq_declared * (1 + 2 * pairs)) + " numbers of network data, found " + std::to_string(flatnum.size()), 0);
    size_t q = 0;
    for (int f = 0; f < p.nfreq_declared; f++) {
        if (!flatnum[q].first_on_line) return fail("frequency does not start a line", flatnum[q].line);
        p.freq.push_back(flatnum[q++]);
        std::vector<Tok> flat((size_t)2 * n * n);
        auto put = [&](int r, int c, const Tok &a, const Tok &b) { flat[(size_t)2 * (r * n + c)] = a; flat[(size_t)2 * (r * n + c) + 1] = b; };
        if (p.matrix_format == 'F') {
            for (int r = 0; r < n; r++) for (int c = 0; c < n; c++) { Tok a = flatnum[q++], b = flatnum[q++]; if (n == 2 && p.order_21_12) put(c, r, a, b); else put(r, c, a, b); }
        } else if (p.matrix_format == 'U') {
            for (int r = 0; r < n; r++) for (int c = r; c < n; c++) { Tok a = flatnum[q++], b = flatnum[q++]; put(r, c, a, b); put(c, r, a, b); }
        } else {
            for (int r = 0; r < n; r++) for (int c = 0; c <= r; c++) { Tok a = flatnum[q++], b = flatnum[q++]; put(r, c, a, b); put(c, r, a, b); }
        }
        p.cols.push_back(flat);
    }
    if (noise_declared >= 0) {
        if (li >= L.size() || L[li].kind != 2 || L[li].kw != "NOISE DATA") return fail("[Noise Data] expected", li < L.size() ? L[li].no : 0);
        li++;
        std::vector<Tok> nz;
        for (; li < L.size() && L[li].kind == 0; li++) if (!numbers_of(L[li], nz)) return fail("not a number", L[li].no);
        if ((int)nz.size() != 5 * noise_declared) return fail("noise data: expected 5 numbers per noise frequency", 0);
        p.noise_rows = noise_declared;
    }
    if (li < L.size() && L[li].kind == 2 && L[li].kw == "END") { p.has_end = true; li++; }
    if (li < L.size()) return fail("unexpected content after the data", L[li].no);
    p.groups[0].ncols = 2 * n * n;
    if (p.has_reference) p.z0re = ref;
    else for (int k = 0; k < n; k++) p.z0re.push_back(p.R.text.empty() ? parse_number("50") : p.R);
    p.ok = true;
    return p;
}

// ------------------------------------------------------------------------------------ NPD in ---
static inline Parsed read_npd(const std::string &text) {
    Parsed p; p.kind = K_NPD;
    auto fail = [&](const std::string &m, int line) { p.ok = false; p.err = "line " + std::to_string(line) + ": " + m; return p; };
    auto raw = split_lines(text);
    int nfreq = -1;
    bool have_params = false, have_z0 = false;
    std::vector<std::vector<Tok>> data;
    int last_key = 0;
    for (size_t i = 0; i < raw.size(); i++) {
        int no = (int)i + 1;
        std::vector<std::string> w = split_ws(raw[i]);
        if (w.empty()) continue;
        bool keyword = w[0].size() > 2 && w[0][0] == '#' && w[0][1] == ':' && isalpha((unsigned char)w[0][2]);
        if (!keyword && w[0][0] == '#') {
            // comment; recognise the self-describing key block "# field N: ..."
            if (w.size() >= 3 && w[0] == "#" && w[1] == "field") {
                std::string nn = w[2];
                if (!nn.empty() && nn.back() == ':') nn.pop_back();
                int k = atoi(nn.c_str());
                p.field_keys++;
                if (k != last_key + 1) p.field_keys_sequential = false;
                last_key = k;
            }
            continue;
        }
        // cut a trailing comment
        for (size_t k = 1; k < w.size(); k++) if (w[k][0] == '#') { w.resize(k); break; }
        if (keyword) {
            if (!data.empty()) return fail("header keyword after the first data line", no);
            std::string key = w[0].substr(2);
            auto one_int = [&](int &dst) -> bool { if (w.size() != 2) return false; char *e; long v = strtol(w[1].c_str(), &e, 10); if (*e || v < 0) return false; dst = (int)v; return true; };
            if (key == "version") { if (w.size() != 2) return fail("bad #:version", no); p.version = w[1]; if (p.version != "1.0") return fail("unsupported NPD version", no); }
            else if (key == "ports") { if (p.ports >= 0 || !one_int(p.ports)) return fail("bad #:ports", no); }
            else if (key == "frequencies") { if (!one_int(nfreq)) return fail("bad #:frequencies", no); }
            else if (key == "fprecision") { if (!one_int(p.fprecision)) return fail("bad #:fprecision", no); }
            else if (key == "dprecision") { if (!one_int(p.dprecision)) return fail("bad #:dprecision", no); }
            else if (key == "parameters") {
                if (w.size() != 2) return fail("#:parameters needs one comma-separated list", no);
                have_params = true;
                std::string lst = w[1]; size_t a = 0;
                while (a <= lst.size()) {
                    size_t b = lst.find(',', a); if (b == std::string::npos) b = lst.size();
                    Group g; g.name = lst.substr(a, b - a);
                    if (!parse_specifier(g.name, g.param, g.fmt) || g.param == P_UNDEF) return fail("bad parameter specifier '" + g.name + "'", no);
                    p.groups.push_back(g);
                    a = b + 1;
                }
            }
            else if (key == "z0") {
                if (p.ports < 0) return fail("#:z0 before #:ports", no);
                have_z0 = true;
                if (w.size() == 2 && upper(w[1]) == "PER-FREQUENCY") p.per_freq_z0 = true;
                else {
                    if ((int)w.size() != 1 + 2 * p.ports) return fail("#:z0 needs a real and an imaginary part per port", no);
                    for (int k = 0; k < p.ports; k++) {
                        Tok re = parse_number(w[1 + 2 * k], no);
                        std::string im = w[2 + 2 * k];
                        if (im.empty() || (im.back() != 'j' && im.back() != 'J')) return fail("imaginary part of z0 must end in j", no);
                        im.pop_back();
                        Tok imt = parse_number(im, no);
                        if (!re.ok || !imt.ok) return fail("bad z0 number", no);
                        p.z0re.push_back(re); p.z0im.push_back(imt);
                    }
                }
            }
            else return fail("unknown header keyword " + key, no);
            continue;
        }
        std::vector<Tok> row;
        for (size_t k = 0; k < w.size(); k++) { Tok t = parse_number(w[k], no); t.first_on_line = k == 0; if (!t.ok) return fail("not a number: " + w[k], no); row.push_back(t); }
        data.push_back(row);
    }
    if (p.ports < 0) return fail("#:ports missing", 0);
    if (nfreq < 0) return fail("#:frequencies missing", 0);
    if (!have_params) return fail("#:parameters missing", 0);
    p.nfreq_declared = nfreq;
    if (!have_z0) for (int k = 0; k < p.ports; k++) { p.z0re.push_back(parse_number("50")); p.z0im.push_back(parse_number("0")); }
    int col = 0;
    for (auto &g : p.groups) {
        if (is_2x2_only(g.param) && p.ports != 2) return fail(std::string(pname(g.param)) + " parameters need two ports", 0);
        if (g.fmt == F_IL && p.ports < 2) return fail("IL needs two ports", 0);
        g.col0 = col; g.ncols = group_columns(g.param, g.fmt, p.ports); col += g.ncols;
    }
    int lead = 1 + (p.per_freq_z0 ? 2 * p.ports : 0);
    p.data_columns = lead + col;
    if ((int)data.size() != nfreq) return fail("expected " + std::to_string(nfreq) + " data lines, found " + std::to_string(data.size()), 0);
    for (auto &row : data) {
        if ((int)row.size() != p.data_columns) return fail("expected " + std::to_string(p.data_columns) + " columns, found " + std::to_string(row.size()), row.empty() ? 0 : row[0].line);
        p.freq.push_back(row[0]);
        if (p.per_freq_z0) p.fz0.push_back(std::vector<Tok>(row.begin() + 1, row.begin() + lead));
        p.cols.push_back(std::vector<Tok>(row.begin() + lead, row.end()));
    }
    p.ok = true;
    return p;
}

// ---------------------------------------------------------------------------------- writers ---
struct Chooser {
    virtual ~Chooser() {}
    virtual uint64_t draw(uint64_t n) = 0;                   // uniform in [0,n), 0 = plainest
    bool chance(unsigned num, unsigned den) { return draw(den) >= den - num; }
};
struct PlainChooser : Chooser { uint64_t draw(uint64_t) override { return 0; } };
struct SeededChooser : Chooser {
    uint64_t s;
    explicit SeededChooser(uint64_t seed) : s(seed) {}
    uint64_t draw(uint64_t n) override { return n ? sm64(s) % n : 0; }
};

// ground truth of a file
struct Truth {
    int param = P_S;
    int ports = 1;                                   // ZIN: number of ports (1 x ports vector)
    std::vector<double> f;                           // Hz
    bool per_freq_z0 = false;
    std::vector<cd> z0;                              // [ports]
    std::vector<std::vector<cd>> fz0;                // [F][ports] when per_freq_z0
    std::vector<std::vector<cd>> data;               // [F][ports*ports] row-major (ZIN: [F][ports])
    int cells() const { return param == P_ZIN ? ports : ports * ports; }
};

struct TsStyle {
    int version = 1;            // 1 | 2
    int unit = 0;               // 0 Hz, 1 kHz, 2 MHz, 3 GHz
    int fmt = F_RI;             // F_RI | F_MA | F_DB
    char matrix_format = 'F';   // v2: F | U | L   (U/L only for symmetric data)
    bool order_21_12 = false;   // v2 2-port
    int noise_rows = 0;         // 2-port only
    int decor = 0;              // 0 none, 1 light, 2 heavy
    bool crlf = false;
    bool explicit_reference = false;   // v2: write [Reference] although all z0 are equal
    bool omit_end = false;      // (not used by the checks: the library warns when [End] is missing)
    bool used_default = false;  // out: some option-line field was left to its default
    bool used_decoration = false;  // out: a comment, blank line, odd spacing or case was emitted
};

namespace detail {

static inline std::string num17(double x, Chooser &ch, int decor) {
    char b[64];
    int style = decor ? (int)ch.draw(6) : 0;
    if (std::isnan(x)) return "nan";
    if (std::isinf(x)) return x < 0 ? "-inf" : "inf";
    switch (style) {
    default: case 0: snprintf(b, sizeof b, "%.17g", x); break;
    case 1: snprintf(b, sizeof b, "%.16e", x); break;
    case 2: snprintf(b, sizeof b, "%+.17g", x); break;
    case 3: snprintf(b, sizeof b, "%.17G", x); break;
    case 4: if (x == std::floor(x) && std::fabs(x) < 1e15) snprintf(b, sizeof b, "%.0f", x); else snprintf(b, sizeof b, "%.17g", x); break;
    case 5: { snprintf(b, sizeof b, "%.17g", x); std::string s = b; if (s.compare(0, 2, "0.") == 0) s.erase(0, 1); else if (s.compare(0, 3, "-0.") == 0) s.erase(1, 1); return s; }
    }
    return b;
}
static inline std::string randcase(const std::string &s, Chooser &ch, int decor, bool &used) {
    if (!decor) return s;
    switch (ch.draw(4)) {
    default: case 0: return s;
    case 1: used = true; return upper(s);
    case 2: used = true; return lower(s);
    case 3: { used = true; std::string o = s; for (auto &c : o) if (isalpha((unsigned char)c) && ch.draw(2)) c = (char)(isupper((unsigned char)c) ? tolower((unsigned char)c) : toupper((unsigned char)c)); return o; }
    }
}
static inline std::string gap(Chooser &ch, int decor, bool &used) {
    if (!decor) return " ";
    switch (ch.draw(decor == 1 ? 4 : 3)) {
    default: case 0: return " ";
    case 1: used = true; return "  ";
    case 2: used = true; return "\t";
    case 3: return " ";
    }
}
struct Out {
    std::string s; Chooser &ch; int decor; bool crlf; char cmt; bool used = false;
    Out(Chooser &c, int d, bool cr, char cm) : ch(c), decor(d), crlf(cr), cmt(cm) {}
    void nl() { s += crlf ? "\r\n" : "\n"; }
    void filler() {      // optional comment-only or blank lines
        if (!decor) return;
        while (ch.chance(1, decor == 1 ? 10 : 4)) {
            used = true;
            switch (ch.draw(3)) {
            case 0: break;
            case 1: s += cmt; s += " note "; s += std::to_string((unsigned)ch.draw(100)); break;
            default: s += "  "; s += cmt; break;
            }
            nl();
        }
    }
    void maybe_drop_final_newline() {     // a last line without line terminator
        if (!decor || !ch.chance(1, 8)) return;
        if (s.size() >= 2 && s.compare(s.size() - 2, 2, "\r\n") == 0) { s.erase(s.size() - 2); used = true; }
        else if (!s.empty() && s.back() == '\n') { s.pop_back(); used = true; }
    }
    void line(const std::string &body, bool allow_trailing_comment = true) {
        if (decor && ch.chance(1, 8)) { used = true; s += ch.draw(2) ? "  " : "\t"; }
        s += body;
        if (decor && ch.chance(1, 8)) { used = true; s += "  "; }
        if (decor && allow_trailing_comment && ch.chance(1, 8)) { used = true; s += " "; s += cmt; s += " c"; }
        nl();
        filler();
    }
};
template <class T> static inline void shuffle(std::vector<T> &v, Chooser &ch) {
    for (size_t i = 0; i + 1 < v.size(); i++) { size_t j = i + (size_t)ch.draw(v.size() - i); if (j != i) std::swap(v[i], v[j]); }
}
static inline void pair_of(int fmt, cd v, double out[2]) {
    ld o[2]; encode(fmt, cl(v.real(), v.imag()), 0, o); out[0] = (double)o[0]; out[1] = (double)o[1];
}
} // namespace detail

// Touchstone writer.  Preconditions (checked by ts_writable): param in S,Z,Y,H,G; H/G two ports;
// real positive z0; v1: ports <= 4 and equal z0; Upper/Lower only for symmetric data.
static inline bool ts_writable(const Truth &t, int version) {
    if (!(t.param == P_S || t.param == P_Z || t.param == P_Y || t.param == P_H || t.param == P_G)) return false;
    if ((t.param == P_H || t.param == P_G) && t.ports != 2) return false;
    if (t.per_freq_z0 || t.ports < 1) return false;
    for (auto &z : t.z0) if (z.imag() != 0 || !(z.real() > 0)) return false;
    if (version == 1) { if (t.ports > 4) return false; for (auto &z : t.z0) if (z != t.z0[0]) return false; }
    return true;
}
static inline bool is_symmetric(const Truth &t) {
    if (t.param == P_ZIN) return false;
    int n = t.ports;
    for (auto &m : t.data) for (int r = 0; r < n; r++) for (int c = 0; c < r; c++) if (m[r * n + c] != m[c * n + r]) return false;
    return true;
}

static inline std::string write_touchstone(const Truth &t, TsStyle &st, Chooser &ch) {
    using namespace detail;
    Out o(ch, st.decor, st.crlf, '!');
    const int n = t.ports;
    const int D = st.decor;
    bool equal_z0 = true; for (auto &z : t.z0) if (z != t.z0[0]) equal_z0 = false;
    double R = equal_z0 ? t.z0[0].real() : 50.0;
    static const char *units[] = {"Hz", "kHz", "MHz", "GHz"};
    static const double mult[] = {1, 1e3, 1e6, 1e9};
    o.filler();
    if (st.version == 2) o.line(randcase("[Version]", ch, D, o.used) + gap(ch, D, o.used) + "2.0");
    {   // option line
        std::vector<std::string> fields;
        bool may_omit = D > 0;
        if (!(st.unit == 3 && may_omit && ch.chance(1, 2) && (st.used_default = true))) fields.push_back(randcase(units[st.unit], ch, D, o.used));
        if (!(t.param == P_S && may_omit && ch.chance(1, 2) && (st.used_default = true))) fields.push_back(randcase(pname(t.param), ch, D, o.used));
        if (!(st.fmt == F_MA && may_omit && ch.chance(1, 2) && (st.used_default = true))) fields.push_back(randcase(st.fmt == F_RI ? "RI" : st.fmt == F_MA ? "MA" : "DB", ch, D, o.used));
        if (!(R == 50.0 && may_omit && ch.chance(1, 2) && (st.used_default = true))) fields.push_back(randcase("R", ch, D, o.used) + gap(ch, D, o.used) + num17(R, ch, D));
        if (D) { size_t before = fields.size(); std::vector<std::string> keep = fields; shuffle(fields, ch); if (before > 1 && keep != fields) o.used = true; }
        std::string l = "#";
        for (auto &f : fields) l += gap(ch, D, o.used) + f;
        o.line(l);
    }
    if (st.version == 2) {
        o.line(randcase("[Number of Ports]", ch, D, o.used) + gap(ch, D, o.used) + std::to_string(n));
        std::vector<std::string> kws;
        if (n == 2) kws.push_back(randcase("[Two-Port Order]", ch, D, o.used) + gap(ch, D, o.used) + (st.order_21_12 ? "21_12" : "12_21"));
        kws.push_back(randcase("[Number of Frequencies]", ch, D, o.used) + gap(ch, D, o.used) + std::to_string(t.f.size()));
        if (st.noise_rows > 0) kws.push_back(randcase("[Number of Noise Frequencies]", ch, D, o.used) + gap(ch, D, o.used) + std::to_string(st.noise_rows));
        if (!equal_z0 || st.explicit_reference) {
            std::string l = randcase("[Reference]", ch, D, o.used);
            for (int k = 0; k < n; k++) {
                if (D && k > 0 && ch.chance(1, 4)) { o.used = true; l += o.crlf ? "\r\n" : "\n"; l += " "; }   // continue on the next line
                else l += gap(ch, D, o.used);
                l += num17(t.z0[k].real(), ch, D);
            }
            kws.push_back(l);
        }
        if (st.matrix_format != 'F' || (D && ch.chance(1, 4)))
            kws.push_back(randcase("[Matrix Format]", ch, D, o.used) + gap(ch, D, o.used) + randcase(st.matrix_format == 'F' ? "Full" : st.matrix_format == 'U' ? "Upper" : "Lower", ch, D, o.used));
        if (D) shuffle(kws, ch);
        for (auto &k : kws) o.line(k, k.find('\n') == std::string::npos);
        o.line(randcase("[Network Data]", ch, D, o.used));
    }
    // network data
    for (size_t fi = 0; fi < t.f.size(); fi++) {
        std::string l = num17(t.f[fi] / mult[st.unit], ch, D);
        auto cell = [&](int r, int c) {
            cd v = t.data[fi][r * n + c];
            if (st.version == 1) { cl w = ts1_normalise(t.param, r, c, cl(v.real(), v.imag()), (ld)R); v = cd((double)w.real(), (double)w.imag()); }
            double pr[2]; pair_of(st.fmt, v, pr);
            return num17(pr[0], ch, D) + gap(ch, D, o.used) + num17(pr[1], ch, D);
        };
        if (st.version == 1) {
            if (n == 1) l += gap(ch, D, o.used) + cell(0, 0);
            else if (n == 2) { l += gap(ch, D, o.used) + cell(0, 0); l += gap(ch, D, o.used) + cell(1, 0); l += gap(ch, D, o.used) + cell(0, 1); l += gap(ch, D, o.used) + cell(1, 1); }
            else {
                for (int r = 0; r < n; r++) {
                    if (r > 0) { o.line(l); l = D && ch.chance(1, 2) ? "" : "    "; }
                    for (int c = 0; c < n; c++) l += ((r > 0 && c == 0 && l.empty()) ? std::string() : gap(ch, D, o.used)) + cell(r, c);
                }
            }
            o.line(l);
        } else {
            // free line breaks (a frequency always starts a line)
            int on_line = 0;
            auto add = [&](const std::string &pairtext, bool row_start) {
                bool brk = D ? (on_line > 0 && ch.chance(1, 4)) : (on_line >= 4 || (row_start && n != 2 && on_line > 0));
                if (brk) { if (D) o.used = true; o.line(l); l = "   "; on_line = 0; }
                l += gap(ch, D, o.used) + pairtext; on_line++;
            };
            for (int r = 0; r < n; r++) {
                int c0 = st.matrix_format == 'U' ? r : 0, c1 = st.matrix_format == 'L' ? r : n - 1;
                for (int c = c0; c <= c1; c++) {
                    bool swap = (n == 2 && st.order_21_12 && st.matrix_format == 'F');
                    add(swap ? cell(c, r) : cell(r, c), c == c0 && r > 0);
                }
            }
            o.line(l);
        }
    }
    // noise data (discarded by readers that do not model noise; values are arbitrary but well-formed)
    if (st.noise_rows > 0) {
        if (st.version == 2) o.line(randcase("[Noise Data]", ch, D, o.used));
        for (int k = 0; k < st.noise_rows; k++) {
            double fn = (t.f[0] * (1 + 0.5 * k)) / mult[st.unit];
            std::string l = num17(fn, ch, D) + gap(ch, D, o.used) + num17(0.5 + 0.25 * k, ch, D) + gap(ch, D, o.used) + num17(0.3, ch, D) + gap(ch, D, o.used) + num17(-45.0 + 10 * k, ch, D) + gap(ch, D, o.used) + num17(0.2, ch, D);
            o.line(l);
        }
    }
    if (st.version == 2 && !st.omit_end) o.line(randcase("[End]", ch, D, o.used));
    o.maybe_drop_final_newline();
    if (o.used) st.used_decoration = true;
    return o.s;
}

// NPD writer ------------------------------------------------------------------------------------
struct NpdGroup { int param; int fmt; };
struct NpdStyle {
    std::vector<NpdGroup> groups;            // in file order
    int decor = 0;
    bool crlf = false;
    bool key_block = true;                   // write the "# field N:" block
    bool legacy_rows_columns = false;        // "#:rows n" + "#:columns n" instead of "#:ports n" (corpus only)
    bool used_decoration = false;            // out
};
static inline std::string specifier_name(int param, int fmt) {
    if (fmt >= F_PRC) return fmt_name(fmt);
    return std::string(pname(param)) + fmt_name(fmt);
}
// columns[g][f] = the numbers of group g at frequency f (as computed by the caller with tsconv)
static inline std::string write_npd(const Truth &t, NpdStyle &st, const std::vector<std::vector<std::vector<double>>> &columns, Chooser &ch) {
    using namespace detail;
    Out o(ch, st.decor, st.crlf, '#');
    const int n = t.ports, D = st.decor;
    o.line("#NPD", false);
    std::vector<std::string> hdr;     // lines that may be permuted (z0 is kept after ports)
    std::string params;
    for (size_t g = 0; g < st.groups.size(); g++) { bool dummy = false; params += (g ? "," : "") + randcase(specifier_name(st.groups[g].param, st.groups[g].fmt), ch, D, dummy); if (dummy) o.used = true; }
    bool all50 = !t.per_freq_z0; for (auto &z : t.z0) if (z != cd(50, 0)) all50 = false;
    std::string z0line = "#:z0";
    if (t.per_freq_z0) z0line += gap(ch, D, o.used) + "PER-FREQUENCY";
    else for (int k = 0; k < n; k++) {
        char b[64]; snprintf(b, sizeof b, "%+.17g", t.z0[k].imag());
        z0line += gap(ch, D, o.used) + num17(t.z0[k].real(), ch, D) + gap(ch, D, o.used) + b + "j";
    }
    std::string portsline = st.legacy_rows_columns ? "" : "#:ports" + gap(ch, D, o.used) + std::to_string(n);
    if (!(D && ch.chance(1, 3))) hdr.push_back("#:version" + gap(ch, D, o.used) + "1.0");
    hdr.push_back("#:frequencies" + gap(ch, D, o.used) + std::to_string(t.f.size()));
    hdr.push_back("#:parameters" + gap(ch, D, o.used) + params);
    if (!(D && ch.chance(1, 3))) hdr.push_back("#:fprecision" + gap(ch, D, o.used) + "17");
    if (!(D && ch.chance(1, 3))) hdr.push_back("#:dprecision" + gap(ch, D, o.used) + "17");
    bool write_z0 = !(all50 && D && ch.chance(1, 2));
    if (st.legacy_rows_columns) { hdr.push_back("#:rows " + std::to_string(n)); hdr.push_back("#:columns " + std::to_string(n)); }
    else hdr.push_back(portsline);
    if (D) { std::vector<std::string> keep = hdr; shuffle(hdr, ch); if (keep != hdr) o.used = true; }
    // z0 must follow the port count: insert it at a random position after it
    if (write_z0) {
        size_t pos = 0;
        for (size_t i = 0; i < hdr.size(); i++) if (hdr[i].compare(0, 7, "#:ports") == 0 || hdr[i].compare(0, 9, "#:columns") == 0 || hdr[i].compare(0, 6, "#:rows") == 0) pos = i + 1;
        size_t at = pos + (D ? (size_t)ch.draw(hdr.size() - pos + 1) : hdr.size() - pos);
        hdr.insert(hdr.begin() + (long)at, z0line);
    }
    for (auto &h : hdr) o.line(h);
    if (st.key_block) {
        o.line("#", false);
        int k = 0; char b[96];
        snprintf(b, sizeof b, "# field %d: frequency (Hz)", ++k); o.line(b, false);
        if (t.per_freq_z0) for (int q = 0; q < n; q++) { snprintf(b, sizeof b, "# field %d: Z%d real (ohms)", ++k, q + 1); o.line(b, false); snprintf(b, sizeof b, "# field %d: Z%d imaginary (ohms)", ++k, q + 1); o.line(b, false); }
        for (auto &g : st.groups) { int nc = group_columns(g.param, g.fmt, n); for (int q = 0; q < nc; q++) { snprintf(b, sizeof b, "# field %d: %s column %d", ++k, specifier_name(g.param, g.fmt).c_str(), q + 1); o.line(b, false); } }
        o.line("#", false);
    }
    for (size_t fi = 0; fi < t.f.size(); fi++) {
        std::string l = num17(t.f[fi], ch, D);
        if (t.per_freq_z0) for (int k = 0; k < n; k++) { l += gap(ch, D, o.used) + num17(t.fz0[fi][k].real(), ch, D); l += gap(ch, D, o.used) + num17(t.fz0[fi][k].imag(), ch, D); }
        for (size_t g = 0; g < st.groups.size(); g++) for (double x : columns[g][fi]) l += gap(ch, D, o.used) + num17(x, ch, D);
        o.line(l);
    }
    o.maybe_drop_final_newline();
    if (o.used) st.used_decoration = true;
    return o.s;
}

} // namespace tsio
