/* Shadow <complex.h> for C++ harness TUs: lets the C99 public headers of
 * libvna ("double complex") be included from C++ (clang++/g++ _Complex
 * extension).  Include all C++ standard headers BEFORE the libvna headers. */
#include <complex>
#include_next <complex.h>
#undef complex
#define complex _Complex
